#!/venv/bin/python
"""Single entry point:  run.py <Cxx> --tier quick|thorough [--replay FILE]

Exit codes: 0 property held on everything explored (KNOWN-FINDING lines allowed),
1 VIOLATION (new signature), 2 harness error.
"""
import os
import sys

VERIF = os.path.dirname(os.path.abspath(__file__))

if os.environ.get("PYTHONHASHSEED") != "0":
    os.environ["PYTHONHASHSEED"] = "0"
    os.execv(sys.executable, [sys.executable] + sys.argv)

REPO = os.environ.get("VERIF_REPO", "/repo")
DEPS = os.path.join(VERIF, ".deps")
sys.path.insert(0, REPO)
sys.path.insert(1, VERIF)
if os.path.isdir(DEPS):
    sys.path.append(DEPS)
os.environ.setdefault("PY7ZR_VERIF", "1")
sys.dont_write_bytecode = True


def main():
    import argparse

    ap = argparse.ArgumentParser()
    ap.add_argument("prop")
    ap.add_argument("--tier", default=os.environ.get("VERIF_TIER", "quick"), choices=["quick", "thorough"])
    ap.add_argument("--replay", default=None)
    ap.add_argument("--shards", type=int, default=int(os.environ.get("VERIF_SHARDS", "16")))
    ap.add_argument("--scale", type=float, default=float(os.environ.get("VERIF_SCALE", "1")))
    args = ap.parse_args()
    try:
        import py7zr  # noqa

        if not os.path.realpath(py7zr.__file__).startswith(os.path.realpath(REPO) + os.sep):
            print("HARNESS-ERROR: py7zr imported from %s, expected under %s" % (py7zr.__file__, REPO))
            return 2
        from vlib import runner

        return runner.main(args.prop.upper(), args.tier, args.replay, args.shards, args.scale)
    except SystemExit:
        raise
    except BaseException:  # harness error, never a violation
        import traceback

        traceback.print_exc()
        print("HARNESS-ERROR: see traceback")
        return 2


if __name__ == "__main__":
    sys.exit(main())
