"""Primitive encodings of the 7z container, written from 7zFormat.txt (DESIGN.md appendix A).
Shares no code with py7zr."""
import struct


class ParseError(Exception):
    pass


def enc_number(v: int, length=None) -> bytes:
    """NUMBER: first byte has k leading 1 bits, k extra little-endian bytes follow; the
    remaining (7-k) low bits of the first byte are the most significant bits of the value.
    length = total encoded length 1..9 (None: minimal)."""
    if v < 0 or v >> 64:
        raise ValueError("NUMBER out of range")
    if length is None:
        for k in range(9):
            if k == 8 or v < (1 << (7 * (k + 1))):
                break
    else:
        k = length - 1
        if k < 0 or k > 8:
            raise ValueError("bad length")
        if k < 8 and v >= (1 << (8 * k + (7 - k))):
            raise ValueError("value does not fit the class")
    if k == 8:
        return b"\xff" + struct.pack("<Q", v)
    low = v & ((1 << (8 * k)) - 1)
    high = v >> (8 * k)
    first = ((0xFF << (8 - k)) & 0xFF) | high
    return bytes([first]) + low.to_bytes(k, "little")


def min_number_len(v: int) -> int:
    for k in range(9):
        if k == 8 or v < (1 << (7 * (k + 1))):
            return k + 1
    return 9


def dec_number(buf, pos: int):
    if pos >= len(buf):
        raise ParseError("NUMBER: end of data")
    first = buf[pos]
    k = 0
    mask = 0x80
    while k < 8 and first & mask:
        k += 1
        mask >>= 1
    if pos + 1 + k > len(buf):
        raise ParseError("NUMBER: truncated")
    low = int.from_bytes(buf[pos + 1: pos + 1 + k], "little")
    if k == 8:
        return low, pos + 9
    high = first & (mask - 1) if k < 7 else 0
    return (high << (8 * k)) | low, pos + 1 + k


def enc_bits(bits) -> bytes:
    out = bytearray((len(bits) + 7) // 8)
    for i, b in enumerate(bits):
        if b:
            out[i >> 3] |= 0x80 >> (i & 7)
    return bytes(out)


def dec_bits(buf, pos: int, n: int, strict=None):
    nb = (n + 7) // 8
    if pos + nb > len(buf):
        raise ParseError("bit vector truncated")
    bits = [bool(buf[pos + (i >> 3)] & (0x80 >> (i & 7))) for i in range(n)]
    if strict is not None and n & 7:
        if buf[pos + nb - 1] & ((1 << (8 - (n & 7))) - 1):
            strict.append("bitvector-padding-nonzero")
    return bits, pos + nb


def enc_defined(bits, shortcut=True) -> bytes:
    """AllAreDefined byte followed by the vector when not all defined."""
    if shortcut and all(bits):
        return b"\x01"
    return b"\x00" + enc_bits(bits)


def dec_defined(buf, pos, n, strict=None):
    if pos >= len(buf):
        raise ParseError("defined-vector: end of data")
    alld = buf[pos]
    pos += 1
    if alld:
        return [True] * n, pos
    return dec_bits(buf, pos, n, strict)


def enc_name(s: str) -> bytes:
    return s.encode("utf-16-le", "surrogatepass") + b"\x00\x00"


def dec_names(buf, pos, end, count):
    names = []
    for _ in range(count):
        p = pos
        while True:
            if p + 2 > end:
                raise ParseError("name not terminated")
            if buf[p] == 0 and buf[p + 1] == 0:
                break
            p += 2
        names.append(bytes(buf[pos:p]).decode("utf-16-le", "surrogatepass"))
        pos = p + 2
    return names, pos


def u32(v):
    return struct.pack("<L", v & 0xFFFFFFFF)


def u64(v):
    return struct.pack("<Q", v & 0xFFFFFFFFFFFFFFFF)
