"""Reference 7z reader: strict parser + decoder, written from the grammar in DESIGN.md
appendix A.  Returns the logical archive and the list of violated structural invariants."""
import stat as _stat
import struct
import zlib

from . import coders as C
from .codec import ParseError, dec_bits, dec_defined, dec_names, dec_number

SIG = b"7z\xbc\xaf\x27\x1c"


def crc(b):
    return zlib.crc32(b) & 0xFFFFFFFF


class Cur:
    def __init__(self, buf, pos=0, end=None):
        self.buf = buf
        self.pos = pos
        self.end = len(buf) if end is None else end

    def byte(self):
        if self.pos >= self.end:
            raise ParseError("unexpected end of header")
        b = self.buf[self.pos]
        self.pos += 1
        return b

    def peek(self):
        if self.pos >= self.end:
            raise ParseError("unexpected end of header")
        return self.buf[self.pos]

    def num(self):
        v, p = dec_number(self.buf, self.pos)
        if p > self.end:
            raise ParseError("NUMBER crosses section end")
        self.pos = p
        return v

    def raw(self, n):
        if n < 0 or self.pos + n > self.end:
            raise ParseError("raw read of %d bytes past end" % n)
        b = bytes(self.buf[self.pos:self.pos + n])
        self.pos += n
        return b

    def u32(self):
        return struct.unpack("<L", self.raw(4))[0]

    def u64(self):
        return struct.unpack("<Q", self.raw(8))[0]

    def bits(self, n, viol):
        if n > 8 * (self.end - self.pos):
            raise ParseError("bit vector longer than section")
        v, p = dec_bits(self.buf, self.pos, n, viol)
        self.pos = p
        return v

    def defined(self, n, viol):
        if self.peek() == 0 and n > 8 * (self.end - self.pos - 1):
            raise ParseError("defined vector longer than section")
        v, p = dec_defined(self.buf, self.pos, n, viol)
        self.pos = p
        return v


MAX_ITEMS = 1 << 20  # the reference reader refuses absurd counts outright


class Parsed:
    def __init__(self):
        self.violations = []
        self.sig = {}
        self.encoded = False
        self.header_coders = None
        self.header_folder_crc = None
        self.packinfo = None
        self.folders = []
        self.files = []
        self.members = []
        self.has_substreams = False
        self.empty = False
        self.raw_header = None
        self.errors = []  # decode errors per folder
        self.props_seen = []


def digests(cur, n, viol):
    defined = cur.defined(n, viol)
    return [cur.u32() if d else None for d in defined]


def parse_packinfo(cur, viol):
    packpos = cur.num()
    n = cur.num()
    if n > MAX_ITEMS:
        raise ParseError("too many pack streams")
    sizes, crcs = None, [None] * n
    pid = cur.byte()
    if pid == 0x09:
        sizes = [cur.num() for _ in range(n)]
        pid = cur.byte()
    if pid == 0x0A:
        crcs = digests(cur, n, viol)
        pid = cur.byte()
    if pid != 0x00:
        raise ParseError("PackInfo: end expected, got %02x" % pid)
    if sizes is None:
        if n:
            viol.append("packinfo-sizes-missing")
        sizes = [0] * n
    return {"packpos": packpos, "sizes": sizes, "crcs": crcs}


def parse_folder(cur, viol):
    nc = cur.num()
    if nc == 0 or nc > 32:
        raise ParseError("folder with %d coders" % nc)
    coders = []
    tin = tout = 0
    for _ in range(nc):
        flag = cur.byte()
        if flag & 0xC0:
            viol.append("coder-flag-reserved-bits")
        mid = cur.raw(flag & 0x0F).hex() or "00"  # the id is a number read from idSize bytes: none = 0 = Copy
        nin = nout = 1
        if flag & 0x10:
            nin, nout = cur.num(), cur.num()
            if nin > 64 or nout > 64:
                raise ParseError("coder stream counts")
        props = None
        if flag & 0x20:
            ps = cur.num()
            props = cur.raw(ps)
        coders.append({"m": mid, "props": props, "nin": nin, "nout": nout})
        tin += nin
        tout += nout
    if tout == 0:
        raise ParseError("folder without out streams")
    bind = [(cur.num(), cur.num()) for _ in range(tout - 1)]
    npacked = tin - (tout - 1)
    if npacked < 1:
        raise ParseError("folder without packed stream")
    if npacked == 1:
        bound_in = {b[0] for b in bind}
        packed = [i for i in range(tin) if i not in bound_in][:1]
        if not packed:
            raise ParseError("no free in stream")
    else:
        packed = [cur.num() for _ in range(npacked)]
    return {"coders": coders, "bind": bind, "packed": packed, "tin": tin, "tout": tout}


def parse_codersinfo(cur, viol):
    if cur.byte() != 0x0B:
        raise ParseError("CodersInfo: folder id expected")
    nf = cur.num()
    if nf > MAX_ITEMS:
        raise ParseError("too many folders")
    if cur.byte() != 0:
        raise ParseError("external folders not supported")
    folders = [parse_folder(cur, viol) for _ in range(nf)]
    if cur.byte() != 0x0C:
        raise ParseError("CodersUnpackSize expected")
    for f in folders:
        f["unpack_sizes"] = [cur.num() for _ in range(f["tout"])]
    pid = cur.byte()
    for f in folders:
        f["crc"] = None
    if pid == 0x0A:
        for f, c in zip(folders, digests(cur, nf, viol)):
            f["crc"] = c
        pid = cur.byte()
    if pid != 0:
        raise ParseError("CodersInfo: end expected, got %02x" % pid)
    return folders


def main_out_index(f):
    bound_out = {b[1] for b in f["bind"]}
    for i in range(f["tout"]):
        if i not in bound_out:
            return i
    raise ParseError("folder: every out stream is bound")


def parse_substreams(cur, folders, viol):
    pid = cur.byte()
    counts = [1] * len(folders)
    if pid == 0x0D:
        counts = [cur.num() for _ in folders]
        if any(c > MAX_ITEMS for c in counts):
            raise ParseError("too many substreams")
        pid = cur.byte()
    for f, c in zip(folders, counts):
        f["nsub"] = c
    if pid == 0x09:
        for f in folders:
            n = f["nsub"]
            total = f["unpack_sizes"][main_out_index(f)]
            if n == 0:
                f["sub_sizes"] = []
                continue
            sizes = [cur.num() for _ in range(n - 1)]
            last = total - sum(sizes)
            if last < 0:
                viol.append("substream-sizes-exceed-folder")
                last = 0
            f["sub_sizes"] = sizes + [last]
        pid = cur.byte()
    else:
        for f in folders:
            total = f["unpack_sizes"][main_out_index(f)]
            if f["nsub"] == 1:
                f["sub_sizes"] = [total]
            elif f["nsub"] == 0:
                f["sub_sizes"] = []
            else:
                viol.append("substream-sizes-missing")
                f["sub_sizes"] = [total] + [0] * (f["nsub"] - 1)
    k = sum(f["nsub"] for f in folders if f["nsub"] != 1 or f["crc"] is None)
    for f in folders:
        f["sub_crcs"] = [None] * f["nsub"]
        if f["nsub"] == 1 and f["crc"] is not None:
            f["sub_crcs"] = [f["crc"]]
    if pid == 0x0A:
        ds = digests(cur, k, viol)
        i = 0
        for f in folders:
            if f["nsub"] != 1 or f["crc"] is None:
                f["sub_crcs"] = ds[i:i + f["nsub"]]
                i += f["nsub"]
        pid = cur.byte()
    if pid != 0:
        raise ParseError("SubStreamsInfo: end expected, got %02x" % pid)


def parse_streams(cur, viol):
    out = {"packinfo": None, "folders": [], "has_substreams": False}
    pid = cur.byte()
    if pid == 0x06:
        out["packinfo"] = parse_packinfo(cur, viol)
        pid = cur.byte()
    if pid == 0x07:
        out["folders"] = parse_codersinfo(cur, viol)
        pid = cur.byte()
    if pid == 0x08:
        parse_substreams(cur, out["folders"], viol)
        out["has_substreams"] = True
        pid = cur.byte()
    else:
        for f in out["folders"]:
            f["nsub"] = 1
            f["sub_sizes"] = [f["unpack_sizes"][main_out_index(f)]]
            f["sub_crcs"] = [f["crc"]]
    if pid != 0:
        raise ParseError("StreamsInfo: end expected, got %02x" % pid)
    return out


def parse_filesinfo(cur, viol, props_seen):
    n = cur.num()
    if n > MAX_ITEMS:
        raise ParseError("too many files")
    files = [{"name": None, "es": False, "ef": False, "anti": False, "mtime": None, "ctime": None, "atime": None,
              "attr": None} for _ in range(n)]
    nes = 0
    seen_es = False
    while True:
        pid = cur.byte()
        if pid == 0:
            break
        size = cur.num()
        if size > cur.end - cur.pos:
            raise ParseError("FilesInfo property %02x: size %d past end" % (pid, size))
        sub = Cur(cur.buf, cur.pos, cur.pos + size)
        cur.pos += size
        props_seen.append(pid)
        if pid == 0x0E:
            es = sub.bits(n, viol)
            for f, b in zip(files, es):
                f["es"] = b
            nes = sum(es)
            seen_es = True
        elif pid == 0x0F:
            if not seen_es:
                viol.append("emptyfile-before-emptystream")
            ef = sub.bits(nes, viol)
            it = iter(ef)
            for f in files:
                if f["es"]:
                    f["ef"] = next(it)
        elif pid == 0x10:
            an = sub.bits(nes, viol)
            it = iter(an)
            for f in files:
                if f["es"]:
                    f["anti"] = next(it)
        elif pid == 0x11:
            if sub.byte() != 0:
                raise ParseError("external names not supported")
            if (sub.end - sub.pos) % 2:
                viol.append("names-odd-length")
            names, p = dec_names(sub.buf, sub.pos, sub.end, n)
            sub.pos = p
            for f, nm in zip(files, names):
                try:
                    nm.encode("utf-16-le")
                except UnicodeEncodeError:
                    viol.append("name-invalid-utf16")
                f["name"] = nm
        elif pid in (0x12, 0x13, 0x14):
            key = {0x12: "ctime", 0x13: "atime", 0x14: "mtime"}[pid]
            defined = sub.defined(n, viol)
            if sub.byte() != 0:
                raise ParseError("external times not supported")
            for f, d in zip(files, defined):
                f[key] = sub.u64() if d else None
        elif pid == 0x15:
            defined = sub.defined(n, viol)
            if sub.byte() != 0:
                raise ParseError("external attributes not supported")
            for f, d in zip(files, defined):
                f["attr"] = sub.u32() if d else None
        elif pid == 0x18:
            defined = sub.defined(n, viol)
            if sub.byte() != 0:
                raise ParseError("external startpos not supported")
            for f, d in zip(files, defined):
                if d:
                    f["startpos"] = sub.u64()
        elif pid == 0x16:
            sub.pos = sub.end  # kComment: opaque
        elif pid == 0x19:
            if any(sub.buf[sub.pos:sub.end]):
                viol.append("dummy-nonzero")
            sub.pos = sub.end
        else:
            viol.append("unknown-file-property-%02x" % pid)
            sub.pos = sub.end
        if sub.pos != sub.end:
            viol.append("property-%02x-size-mismatch(declared %d, used %d)" % (pid, size, size - (sub.end - sub.pos)))
    return files


def decode_folder(f, packs, password, viol, fi):
    """packs: list of bytes for this folder's packed streams (in folder order)."""
    for c in f["coders"]:
        if c["nin"] != 1 or c["nout"] != 1:
            raise C.Unsupported("complex coder " + c["m"])
    bind_in = {b[0]: b[1] for b in f["bind"]}
    memo = {}

    def out_of(ci, depth=0):
        if depth > len(f["coders"]):
            raise ParseError("bind pairs form a cycle")
        if ci in memo:
            return memo[ci]
        if ci >= len(f["coders"]):
            raise ParseError("bind pair references missing coder")
        if ci in bind_in:
            src = out_of(bind_in[ci], depth + 1)
        else:
            if ci not in f["packed"]:
                raise ParseError("in stream neither bound nor packed")
            src = packs[f["packed"].index(ci)]
        c = f["coders"][ci]
        want = f["unpack_sizes"][ci]
        data = C.decode_stage(c["m"], c["props"], src, want, password)
        if len(data) < want:
            viol.append("folder%d-coder%d-underproduces(%d<%d)" % (fi, ci, len(data), want))
        elif len(data) > want:
            if c["m"] != C.M_AES:
                viol.append("folder%d-coder%d-overproduces(%d>%d)" % (fi, ci, len(data), want))
            data = data[:want]
        memo[ci] = data
        return data

    return out_of(main_out_index(f))


def parse_header_body(cur, viol, props_seen):
    """after the 0x01 id"""
    streams = None
    files = []
    pid = cur.byte()
    if pid == 0x02:
        # archive properties: (type, size, data)* 00
        while True:
            t = cur.byte()
            if t == 0:
                break
            cur.raw(cur.num())
        pid = cur.byte()
    if pid == 0x03:
        raise ParseError("additional streams not supported")
    if pid == 0x04:
        streams = parse_streams(cur, viol)
        pid = cur.byte()
    if pid == 0x05:
        files = parse_filesinfo(cur, viol, props_seen)
        pid = cur.byte()
    if pid != 0:
        raise ParseError("Header: end expected, got %02x" % pid)
    if cur.pos != cur.end:
        viol.append("header-trailing-bytes(%d)" % (cur.end - cur.pos))
    return streams, files


def kind_of(f):
    if f["es"]:
        return "empty" if f["ef"] else "dir"
    a = f["attr"]
    if a is not None and a & 0x8000 and _stat.S_ISLNK(a >> 16):
        return "link"
    return "file"


def parse(data: bytes, password=None, decode=True, own_writer=False, header_only=False) -> Parsed:
    """Strict parse.  Raises ParseError when the bytes are not a 7z archive; structural
    complaints that still allow reading are collected in .violations."""
    P = Parsed()
    viol = P.violations
    if len(data) < 32 or data[:6] != SIG:
        raise ParseError("signature")
    major, minor = data[6], data[7]
    start_crc = struct.unpack("<L", data[8:12])[0]
    nh_off, nh_size, nh_crc = struct.unpack("<QQL", data[12:32])
    P.sig = {"major": major, "minor": minor, "nh_off": nh_off, "nh_size": nh_size, "nh_crc": nh_crc}
    if crc(data[12:32]) != start_crc:
        raise ParseError("start header CRC")
    if major != 0:
        viol.append("major-version-%d" % major)
    if 32 + nh_off + nh_size > len(data):
        raise ParseError("next header outside file")
    if 32 + nh_off + nh_size != len(data):
        viol.append("trailing-bytes-after-next-header(%d)" % (len(data) - 32 - nh_off - nh_size))
    nh = data[32 + nh_off: 32 + nh_off + nh_size]
    if crc(nh) != nh_crc:
        raise ParseError("next header CRC")
    if nh_size == 0:
        P.empty = True
        return P
    cur = Cur(nh)
    pid = cur.byte()
    data_end = 32 + nh_off
    if pid == 0x17:
        P.encoded = True
        hs = parse_streams(cur, viol)
        if cur.pos != cur.end:
            viol.append("encoded-header-trailing-bytes")
        if len(hs["folders"]) != 1 or hs["packinfo"] is None:
            raise ParseError("encoded header must have exactly one folder")
        f = hs["folders"][0]
        pi = hs["packinfo"]
        P.header_coders = f["coders"]
        P.header_folder_crc = f["crc"]
        off = 32 + pi["packpos"]
        packs = []
        for i, s in enumerate(pi["sizes"][:len(f["packed"])]):
            if off + s > 32 + nh_off:
                raise ParseError("encoded header stream outside data area")
            b = data[off: off + s]
            if pi["crcs"][i] is not None and crc(b) != pi["crcs"][i]:
                raise ParseError("encoded header pack CRC")
            packs.append(b)
            off += s
        if off != 32 + nh_off:
            viol.append("gap-between-encoded-header-stream-and-next-header(%d)" % (32 + nh_off - off))
        data_end = 32 + pi["packpos"]
        try:
            inner = decode_folder(f, packs, password, viol, -1)
        except C.CoderError as e:
            raise ParseError("encoded header decode: %s" % e)
        if f["crc"] is not None and crc(inner) != f["crc"]:
            raise ParseError("encoded header folder CRC")
        if f["crc"] is None:
            P.violations.append("note:encoded-header-without-crc")
        cur = Cur(inner)
        pid = cur.byte()
        P.raw_header = inner
    else:
        P.raw_header = nh
    if pid != 0x01:
        raise ParseError("Header id expected, got %02x" % pid)
    streams, files = parse_header_body(cur, viol, P.props_seen)
    P.files = files
    if streams is None:
        streams = {"packinfo": None, "folders": [], "has_substreams": False}
    P.packinfo = streams["packinfo"]
    P.folders = streams["folders"]
    P.has_substreams = streams["has_substreams"]
    # ---- structural invariants across sections
    ndata = sum(1 for f in files if not f["es"])
    nsub = sum(f["nsub"] for f in P.folders)
    if ndata != nsub:
        viol.append("substream-count(%d)-differs-from-data-files(%d)" % (nsub, ndata))
    for f in files:
        if f["name"] is None:
            viol.append("note:file-without-name")
            break
    npacked = sum(len(f["packed"]) for f in P.folders)
    if P.packinfo is None:
        if P.folders:
            raise ParseError("folders without PackInfo")
    else:
        if len(P.packinfo["sizes"]) != npacked:
            viol.append("packstreams(%d)-differs-from-folder-inputs(%d)" % (len(P.packinfo["sizes"]), npacked))
        end = 32 + P.packinfo["packpos"] + sum(P.packinfo["sizes"])
        if header_only:
            pass
        elif end > data_end:
            raise ParseError("packed streams overlap the header")
        if own_writer and end != data_end and not header_only:
            viol.append("data-area-not-tiled(end %d, header area at %d)" % (end, data_end))
        if own_writer and P.packinfo["packpos"] != 0:
            viol.append("packpos-nonzero")
    for fi, f in enumerate(P.folders):
        if f["nsub"] and sum(f["sub_sizes"]) != f["unpack_sizes"][main_out_index(f)]:
            viol.append("folder%d-substream-sizes-do-not-sum" % fi)
    if not decode:
        return P
    # ---- decode
    off = 32 + (P.packinfo["packpos"] if P.packinfo else 0)
    si = 0
    folder_data = []
    for fi, f in enumerate(P.folders):
        packs = []
        for _ in f["packed"]:
            if si >= len(P.packinfo["sizes"]):
                raise ParseError("folder %d: missing pack stream" % fi)
            s = P.packinfo["sizes"][si]
            b = data[off: off + s]
            if P.packinfo["crcs"][si] is not None and crc(b) != P.packinfo["crcs"][si]:
                viol.append("pack%d-crc-mismatch" % si)
            packs.append(b)
            off += s
            si += 1
        try:
            out = decode_folder(f, packs, password, viol, fi)
        except C.Unsupported as e:
            P.errors.append("folder%d: unsupported: %s" % (fi, e))
            out = None
        except C.CoderError as e:
            P.errors.append("folder%d: %s" % (fi, e))
            viol.append("folder%d-decode-error" % fi)
            out = None
        if out is not None and f["crc"] is not None and crc(out) != f["crc"]:
            viol.append("folder%d-crc-mismatch" % fi)
        folder_data.append(out)
    # ---- assign substreams to files
    members = []
    fidx, sidx, pos = 0, 0, 0
    for f in files:
        k = kind_of(f)
        m = {"name": f["name"], "kind": k, "data": b"", "mtime": f["mtime"], "ctime": f["ctime"], "atime": f["atime"],
             "attr": f["attr"], "crc": None, "anti": f["anti"], "folder": None}
        if not f["es"]:
            while fidx < len(P.folders) and sidx >= P.folders[fidx]["nsub"]:
                fidx += 1
                sidx, pos = 0, 0
            if fidx >= len(P.folders):
                m["data"] = None
                members.append(m)
                continue
            fo = P.folders[fidx]
            size = fo["sub_sizes"][sidx]
            m["crc"] = fo["sub_crcs"][sidx]
            m["folder"] = fidx
            m["size"] = size
            if folder_data[fidx] is None:
                m["data"] = None
            else:
                d = folder_data[fidx][pos: pos + size]
                if len(d) != size:
                    viol.append("folder%d-short-for-substream%d" % (fidx, sidx))
                m["data"] = d
                if m["crc"] is not None and crc(d) != m["crc"]:
                    viol.append("file-crc-mismatch(%r)" % f["name"])
            pos += size
            sidx += 1
        else:
            m["size"] = 0
        members.append(m)
    P.members = members
    return P


def hard_violations(P):
    return [v for v in P.violations if not v.startswith("note:")]
