"""Reference 7z writer: (files, folders, layout options) -> bytes.

The header is first built as a *token tree* and then serialised, so that a permissive
mode can mutate any field (counts, sizes, ids, vectors, section order) and still re-seal
the CRCs - the structure-aware mutation engine of C05 and the hostile-archive builder of C03.
"""
import zlib

from . import coders as C
from .codec import enc_bits, enc_defined, enc_name, enc_number, u32, u64

SIG = b"7z\xbc\xaf\x27\x1c"


class N:
    """token-tree node. kind: sec (children), num (NUMBER), byte, raw (bytes), u32, u64,
    sized (FilesInfo property: id byte, NUMBER size, payload children; size may be forced)."""
    __slots__ = ("kind", "name", "val", "width", "forced_size")

    def __init__(self, kind, name, val, width=None):
        self.kind = kind
        self.name = name
        self.val = val
        self.width = width
        self.forced_size = None

    def __repr__(self):
        if self.kind in ("sec", "sized"):
            return "%s:%s[%d]" % (self.kind, self.name, len(self.val))
        return "%s:%s=%r" % (self.kind, self.name, self.val)


def sec(name, *children):
    return N("sec", name, [c for c in children if c is not None])


def num(name, v, width=None):
    return N("num", name, v, width)


def byte(name, v):
    return N("byte", name, v)


def raw(name, b):
    return N("raw", name, bytes(b))


def serialize(n: N) -> bytes:
    k = n.kind
    if k == "sec":
        return b"".join(serialize(c) for c in n.val)
    if k == "num":
        v = n.val & 0xFFFFFFFFFFFFFFFF
        try:
            return enc_number(v, n.width)
        except ValueError:
            return enc_number(v)
    if k == "byte":
        return bytes([n.val & 0xFF])
    if k == "raw":
        return n.val
    if k == "u32":
        return u32(n.val)
    if k == "u64":
        return u64(n.val)
    if k == "sized":
        payload = b"".join(serialize(c) for c in n.val[1:])
        size = len(payload) if n.forced_size is None else n.forced_size
        return serialize(n.val[0]) + enc_number(size & 0xFFFFFFFFFFFFFFFF) + payload
    raise ValueError(k)


def flatten(n: N, out=None, parent=None, idx=None):
    """list of (node, parent, index) in pre-order"""
    if out is None:
        out = []
    out.append((n, parent, idx))
    if n.kind in ("sec", "sized"):
        for i, c in enumerate(n.val):
            flatten(c, out, n, i)
    return out


def crc(b):
    return zlib.crc32(b) & 0xFFFFFFFF


# ---------------------------------------------------------------------------- sections


def digests_node(name, crcs, defined, shortcut=True):
    """0A Digests(n): AllDefined [bitvector] crc x defined"""
    parts = [byte("id:crc", 0x0A), raw("defined", enc_defined(defined, shortcut))]
    for c, d in zip(crcs, defined):
        if d:
            parts.append(N("u32", "crc", c))
    return sec(name, *parts)


def folder_node(coders, reverse_bind=False):
    parts = [num("numcoders", len(coders))]
    for c in coders:
        mid = bytes.fromhex(c["m"])
        props = c.get("props")
        flag = len(mid) | (0x20 if props is not None else 0)
        cp = [byte("coderflag", flag), raw("coderid", mid)]
        if props is not None:
            cp += [num("propsize", len(props)), raw("props", props)]
        parts.append(sec("coder", *cp))
    for i in range(len(coders) - 1):
        parts.append(sec("bindpair", num("inindex", i + 1), num("outindex", i)))
    return sec("folder", *parts)


def _psize(f):
    return f["packsize"] if "packsize" in f else len(f["packed"])


def _pcrc(f):
    return f["packcrc"] if "packcrc" in f else crc(f["packed"])


def build_streams(folders_enc, packpos, pack_crc, fcrc_shortcut, numunpack_mode, sub_crc_shortcut, substreams_mode,
                  main_id=0x04):
    """folders_enc: list of dict(coders, packed(bytes), unpack_sizes, subs:[(size, crc)], fcrc: bool, scrc: list[bool])"""
    nf = len(folders_enc)
    pack = [byte("id:packinfo", 0x06), num("packpos", packpos), num("numpackstreams", nf)]
    pack.append(sec("packsizes", byte("id:size", 0x09), *[num("packsize", _psize(f)) for f in folders_enc]))
    if pack_crc:
        defined = pack_crc if isinstance(pack_crc, list) else ([i % 2 == 0 for i in range(nf)] if pack_crc == "partial" else [True] * nf)
        pack.append(digests_node("packcrcs", [_pcrc(f) for f in folders_enc], defined, fcrc_shortcut))
    pack.append(byte("end", 0))
    cod = [byte("id:unpackinfo", 0x07), byte("id:folder", 0x0B), num("numfolders", nf), byte("external", 0)]
    for f in folders_enc:
        cod.append(folder_node(f["coders"]))
    cod.append(sec("unpacksizes", byte("id:codersunpacksize", 0x0C),
                   *[num("unpacksize", s) for f in folders_enc for s in f["unpack_sizes"]]))
    fdef = [bool(f.get("fcrc")) for f in folders_enc]
    if any(fdef):
        cod.append(digests_node("foldercrcs", [f["folder_crc_value"] for f in folders_enc], fdef, fcrc_shortcut))
    cod.append(byte("end", 0))
    parts = [byte("id:streams", main_id), sec("packinfo", *pack), sec("codersinfo", *cod)]
    counts = [len(f["subs"]) for f in folders_enc]
    if substreams_mode != "omit":
        ss = [byte("id:substreams", 0x08)]
        if numunpack_mode == "always" or any(c != 1 for c in counts):
            ss.append(sec("numunpack", byte("id:numunpackstream", 0x0D), *[num("numunpackstream", c) for c in counts]))
        if any(c > 1 for c in counts):
            ss.append(sec("subsizes", byte("id:size", 0x09),
                          *[num("subsize", s) for f in folders_enc for (s, _) in f["subs"][:-1]]))
        dcrcs, ddef = [], []
        for f in folders_enc:
            if len(f["subs"]) != 1 or not f.get("fcrc"):
                for (s, c), d in zip(f["subs"], f["scrc"]):
                    dcrcs.append(c)
                    ddef.append(bool(d))
        if any(ddef):
            ss.append(digests_node("subcrcs", dcrcs, ddef, sub_crc_shortcut))
        ss.append(byte("end", 0))
        parts.append(sec("substreamsinfo", *ss))
    parts.append(byte("end", 0))
    return sec("streamsinfo", *parts)


def sized(name, pid, *payload):
    return N("sized", name, [byte("id:" + name, pid)] + [p for p in payload if p is not None])


def time_prop(name, pid, values, shortcut):
    defined = [v is not None for v in values]
    if not any(defined):
        return None
    return sized(name, pid, raw("defined", enc_defined(defined, shortcut)), byte("external", 0),
                 *[N("u64", "filetime", v) for v in values if v is not None])


def build_filesinfo(files, opts):
    n = len(files)
    parts = [byte("id:filesinfo", 0x05), num("numfiles", n)]
    es = [bool(f.get("es")) for f in files]
    props = []
    if any(es) or opts.get("emptystream_vec") == "always":
        props.append(sized("emptystream", 0x0E, raw("bits", enc_bits(es))))
    ef = [bool(f.get("ef")) for f in files if f.get("es")]
    mode = opts.get("emptyfile_vec", "auto")
    if (any(ef) and mode != "never") or (mode == "always" and any(es)):
        props.append(sized("emptyfile", 0x0F, raw("bits", enc_bits(ef))))
    anti = [bool(f.get("anti")) for f in files if f.get("es")]
    if any(anti):
        props.append(sized("anti", 0x10, raw("bits", enc_bits(anti))))
    d = opts.get("dummy", -1)
    if d is not None and d >= 0:
        props.append(sized("dummy", 0x19, raw("zeros", bytes(d))))
    if opts.get("names", True):
        props.append(sized("names", 0x11, byte("external", 0), *[raw("name", enc_name(f["name"])) for f in files]))
    sc = opts.get("defined_shortcut", True)
    for key, pid in (("ctime", 0x12), ("atime", 0x13), ("mtime", 0x14)):
        props.append(time_prop(key, pid, [f.get(key) for f in files], sc))
    attrs = [f.get("attr") for f in files]
    if any(a is not None for a in attrs):
        props.append(sized("attributes", 0x15, raw("defined", enc_defined([a is not None for a in attrs], sc)),
                           byte("external", 0), *[N("u32", "attr", a) for a in attrs if a is not None]))
    if opts.get("comment"):
        # kComment: present in the property id table, carries nothing an extractor needs
        props.append(sized("comment", 0x16, raw("text", bytes([0x63]) * int(opts["comment"]))))
    sp = opts.get("startpos")
    if sp and n:
        # kStartPos: obsolete but part of the grammar (same shape as the time properties)
        vals = [(i * 7 + 1) if (sp == "all" or i % 2 == 0) else None for i in range(n)]
        props.append(sized("startpos", 0x18, raw("defined", enc_defined([v is not None for v in vals], sc)), byte("external", 0),
                           *[N("u64", "startpos", v) for v in vals if v is not None]))
    props = [p for p in props if p is not None]
    order = opts.get("prop_order")
    if order:
        rank = {name: i for i, name in enumerate(order)}
        props.sort(key=lambda p: rank.get(p.name, 99))
    parts.extend(props)
    parts.append(byte("end", 0))
    return sec("filesinfo", *parts)


# ---------------------------------------------------------------------------- top level


class Built:
    def __init__(self):
        self.data = b""
        self.inner = None  # token tree of the (decoded) header
        self.outer = None  # token tree of the encoded-header record, if any
        self.layout = {}
        self.regions = []  # (start, end, name)
        self.folders_enc = []


def encode_folders(files, folders, password):
    data_files = [f for f in files if not f.get("es")]
    out = []
    idx = 0
    for fo in folders:
        n = fo["n"]
        members = data_files[idx: idx + n]
        idx += n
        blob = b"".join(m["data"] for m in members)
        cod = [dict(c) for c in fo["coders"]]
        packed, sizes = C.encode_chain(cod, blob, password)
        scrc = fo.get("scrc", "all")
        if scrc == "all":
            scrc = [True] * n
        elif scrc == "none":
            scrc = [False] * n
        out.append({"coders": cod, "packed": packed, "unpack_sizes": sizes,
                    "subs": [(len(m["data"]), crc(m["data"])) for m in members],
                    "fcrc": bool(fo.get("fcrc")), "folder_crc_value": crc(blob), "scrc": list(scrc)})
    return out, idx, len(data_files)


def build_header_tree(files, folders_enc, opts):
    parts = [byte("id:header", 0x01)]
    ap = opts.get("archive_props")
    if ap:
        # ArchiveProperties: (type, size, data)* kEnd - no known writer emits any, every reader has to skip them
        recs = []
        for i in range(int(ap)):
            recs += [byte("aptype", 0x19 + i), num("apsize", 3 + i), raw("apdata", bytes([0xC0 + i]) * (3 + i))]
        parts.append(sec("archiveprops", byte("id:archiveprops", 0x02), *recs, byte("end", 0)))
    if folders_enc:
        parts.append(build_streams(folders_enc, opts.get("packpos", 0), opts.get("pack_crc", False),
                                   opts.get("defined_shortcut", True), opts.get("numunpack", "auto"),
                                   opts.get("defined_shortcut", True), opts.get("substreams", "auto")))
    if files or opts.get("empty_filesinfo"):
        parts.append(build_filesinfo(files, opts))
    parts.append(byte("end", 0))
    return sec("header", *parts)


def seal(body: bytes, next_header: bytes, minor=4, major=0) -> bytes:
    """signature header for  [32 bytes][body][next_header]"""
    start = u64(len(body)) + u64(len(next_header)) + u32(crc(next_header))
    return SIG + bytes([major, minor]) + u32(crc(start)) + start + body + next_header


def assemble(built: Built, packed_blobs, opts, password, inner_bytes=None):
    """place packed streams, optionally encode the header, seal."""
    packpos = opts.get("packpos", 0)
    gap_fill = opts.get("gap_fill", 0xA5)
    body = bytes([gap_fill]) * packpos + b"".join(packed_blobs)
    regions = [(32, 32 + packpos, "gap")]
    off = 32 + packpos
    for i, b in enumerate(packed_blobs):
        regions.append((off, off + len(b), "pack%d" % i))
        off += len(b)
    if inner_bytes is None:
        inner_bytes = serialize(built.inner)
    mode = opts.get("header", "raw")
    if mode == "raw":
        nh = inner_bytes
        built.outer = None
    else:
        if mode == "lzma":
            hc = [{"m": C.M_LZMA, "dict": 1 << 16}]
        elif mode == "lzma2":
            hc = [{"m": C.M_LZMA2, "dict": 1 << 16}]
        elif mode == "aes":
            hc = [{"m": C.M_AES, "cycles": opts.get("hdr_cycles", 3), "iv": opts.get("hdr_iv", "a1a2a3a4a5a6a7a8")}]
        elif mode == "lzma+aes":
            hc = [{"m": C.M_AES, "cycles": opts.get("hdr_cycles", 3), "iv": opts.get("hdr_iv", "a1a2a3a4a5a6a7a8")},
                  {"m": C.M_LZMA, "dict": 1 << 16}]
        else:
            hc = [dict(c) for c in mode]
        hgap = opts.get("hdr_gap", 0)
        body += bytes([gap_fill]) * hgap
        regions.append((off, off + hgap, "gap"))
        off += hgap
        packed, sizes = C.encode_chain(hc, inner_bytes, password)
        fe = [{"coders": hc, "packed": packed, "unpack_sizes": sizes, "subs": [(len(inner_bytes), crc(inner_bytes))],
               "fcrc": opts.get("hdr_crc", True), "folder_crc_value": crc(inner_bytes), "scrc": [False]}]
        outer = build_streams(fe, len(body), opts.get("hdr_pack_crc", False), True, "auto", True, "omit", main_id=0x17)
        built.outer = outer
        regions.append((off, off + len(packed), "hdrpack"))
        off += len(packed)
        body += packed
        nh = serialize(outer)
    regions.append((off, off + len(nh), "nextheader"))
    regions.insert(0, (0, 32, "sig"))
    built.regions = regions
    tail = bytes(opts.get("trailing", 0))
    built.data = seal(body, nh, opts.get("minor", 4)) + tail
    built.body = body
    built.next_header = nh
    return built


def build(files, folders, opts=None, password=None) -> Built:
    """files: list of dict(name, es, ef, data(bytes), mtime, ctime, atime, attr)
    folders: list of dict(coders=[{m,..}], n, fcrc, scrc)"""
    opts = dict(opts or {})
    b = Built()
    fe, used, total = encode_folders(files, folders, password)
    if used != total and not opts.get("permissive"):
        raise ValueError("folders cover %d of %d data files" % (used, total))
    b.folders_enc = fe
    b.inner = build_header_tree(files, fe, opts)
    return assemble(b, [f["packed"] for f in fe], opts, password)


def reassemble(built: Built, opts, password=None):
    """after mutating built.inner (and/or calling with mutated outer): re-serialise and re-seal"""
    return assemble(built, [f["packed"] for f in built.folders_enc], dict(opts or {}), password)


def reseal_outer(built: Built, opts=None):
    """re-seal using the (mutated) outer tree - or inner tree in raw mode - as next header, keeping the body."""
    nh = serialize(built.outer if built.outer is not None else built.inner)
    built.next_header = nh
    built.data = seal(built.body, nh, (opts or {}).get("minor", 4))
    return built


def empty_archive(minor=4):
    return seal(b"", b"", minor)
