"""Coder stages for the reference implementation.  Each coder of a folder is run as a
separate whole-buffer stage through the third-party codec library; the 7zAES key
derivation and all coder-property encodings are done here from the format description."""
import bz2
import hashlib
import lzma
import struct
import zlib

M_COPY = "00"
M_DELTA = "03"
M_LZMA = "030101"
M_LZMA2 = "21"
M_PPMD = "030401"
M_X86 = "03030103"
M_BCJ2 = "0303011b"
M_PPC = "03030205"
M_IA64 = "03030401"
M_ARM = "03030501"
M_ARMT = "03030701"
M_SPARC = "03030805"
M_BZIP2 = "040202"
M_DEFLATE = "040108"
M_DEFLATE64 = "040109"
M_ZSTD = "04f71101"
M_BROTLI = "04f71102"
M_LZ4 = "04f71104"
M_AES = "06f10701"

NAMES = {
    M_COPY: "COPY", M_DELTA: "DELTA", M_LZMA: "LZMA", M_LZMA2: "LZMA2", M_PPMD: "PPMd", M_X86: "BCJ",
    M_PPC: "PPC", M_IA64: "IA64", M_ARM: "ARM", M_ARMT: "ARMT", M_SPARC: "SPARC", M_BZIP2: "BZip2",
    M_DEFLATE: "DEFLATE", M_DEFLATE64: "DEFLATE64", M_ZSTD: "ZStandard", M_BROTLI: "Brotli", M_AES: "7zAES",
}
BCJ_IDS = {M_X86: "BCJ", M_PPC: "PPC", M_IA64: "IA64", M_ARM: "ARM", M_ARMT: "ARMT", M_SPARC: "Sparc"}
LZMA_FILTER = {M_X86: lzma.FILTER_X86, M_PPC: lzma.FILTER_POWERPC, M_IA64: lzma.FILTER_IA64, M_ARM: lzma.FILTER_ARM,
               M_ARMT: lzma.FILTER_ARMTHUMB, M_SPARC: lzma.FILTER_SPARC}


class Unsupported(Exception):
    pass


def inflate64_roundtrips(data: bytes) -> bool:
    """does the inflate64 library encode and decode this byte string faithfully?  (KF-47: it does not when a match of
    length 260..262 or 65790..65792 occurs)"""
    import inflate64

    try:
        c = inflate64.Deflater()
        enc = c.deflate(data) + c.flush()
        return inflate64.Inflater().inflate(enc) == data
    except Exception:
        return False


class CoderError(Exception):
    pass


# ---------------------------------------------------------------- 7zAES


def aes_key(password: str, cycles: int, salt: bytes) -> bytes:
    pw = password.encode("utf-16-le", "surrogatepass")
    if cycles == 0x3F:
        return (salt + pw + bytes(32))[:32]
    h = hashlib.sha256()
    sp = salt + pw
    n = 1 << cycles
    # chunked update of  salt+pw+counter(8 bytes LE)  repeated 2^cycles times
    step = 4096
    for base in range(0, n, step):
        h.update(b"".join(sp + struct.pack("<Q", i) for i in range(base, min(n, base + step))))
    return h.digest()


_key_cache = {}


def aes_key_cached(password, cycles, salt):
    k = (password, cycles, salt)
    if k not in _key_cache:
        if len(_key_cache) > 64:
            _key_cache.clear()
        _key_cache[k] = aes_key(password, cycles, salt)
    return _key_cache[k]


def aes_props_encode(cycles: int, salt: bytes, iv: bytes) -> bytes:
    """first byte: cycles | (ivsize>0)<<6 | (saltsize>0)<<7 ; second: (saltsize-1)<<4 | (ivsize-1) style."""
    s, v = len(salt), len(iv)
    b0 = cycles | (0x80 if s else 0) | (0x40 if v else 0)
    if not s and not v:
        return bytes([b0])
    b1 = (((s - 1) if s else 0) << 4) | ((v - 1) if v else 0)
    return bytes([b0, b1]) + salt + iv


def aes_props_decode(props: bytes):
    if not props:
        raise CoderError("7zAES: no properties")
    b0 = props[0]
    cycles = b0 & 0x3F
    if b0 & 0xC0 == 0:
        return cycles, b"", b""
    if len(props) < 2:
        raise CoderError("7zAES: short properties")
    b1 = props[1]
    s = ((b0 >> 7) & 1) + (b1 >> 4)
    v = ((b0 >> 6) & 1) + (b1 & 0x0F)
    if len(props) != 2 + s + v:
        raise CoderError("7zAES: property length")
    return cycles, props[2:2 + s], props[2 + s:2 + s + v]


def _aes():
    from Cryptodome.Cipher import AES
    return AES


def aes_encrypt(data: bytes, password: str, cycles: int, salt: bytes, iv: bytes) -> bytes:
    AES = _aes()
    key = aes_key_cached(password, cycles, salt)
    data = data + bytes(-len(data) % 16)
    if not data:
        return b""
    return AES.new(key, AES.MODE_CBC, (iv + bytes(16))[:16]).encrypt(data)


def aes_decrypt(data: bytes, password: str, props: bytes) -> bytes:
    AES = _aes()
    cycles, salt, iv = aes_props_decode(props)
    if cycles > 24 and cycles != 0x3F:
        raise Unsupported("7zAES cycles %d" % cycles)
    if len(data) % 16:
        raise CoderError("7zAES: ciphertext not a multiple of 16")
    if not data:
        return b""
    key = aes_key_cached(password, cycles, salt)
    return AES.new(key, AES.MODE_CBC, (iv + bytes(16))[:16]).decrypt(data)


# ---------------------------------------------------------------- property codecs


def lzma2_dict_from_code(c: int) -> int:
    if c > 40:
        raise CoderError("LZMA2 dictionary code")
    if c == 40:
        return 0xFFFFFFFF
    return (2 | (c & 1)) << (c // 2 + 11)


def lzma2_code_for(dict_size: int) -> int:
    for c in range(41):
        if lzma2_dict_from_code(c) >= dict_size:
            return c
    return 40


def lzma_props(lc, lp, pb, dict_size) -> bytes:
    return bytes([(pb * 5 + lp) * 9 + lc]) + struct.pack("<L", dict_size)


def lzma_props_decode(props: bytes):
    if len(props) != 5:
        raise CoderError("LZMA props length")
    d = props[0]
    if d >= 9 * 5 * 5:
        raise CoderError("LZMA props byte")
    lc = d % 9
    d //= 9
    lp = d % 5
    pb = d // 5
    return lc, lp, pb, struct.unpack("<L", props[1:])[0]


def _bcj_mod():
    import bcj
    return bcj


# ---------------------------------------------------------------- encode


def encode_stage(coder: dict, data: bytes, password=None) -> bytes:
    """coder: {"m": hex id, ...params}. Fills coder["props"] (bytes or None). Returns encoded bytes."""
    m = coder["m"]
    if m == M_COPY:
        coder.setdefault("props", None)
        return data
    if m == M_LZMA2:
        ds = coder.get("dict", 1 << 16)
        code = lzma2_code_for(ds)
        coder["props"] = bytes([code])
        f = [{"id": lzma.FILTER_LZMA2, "dict_size": max(4096, lzma2_dict_from_code(code)), "lc": coder.get("lc", 3),
              "lp": coder.get("lp", 0), "pb": coder.get("pb", 2)}]
        c = lzma.LZMACompressor(format=lzma.FORMAT_RAW, filters=f)
        return c.compress(data) + c.flush()
    if m == M_LZMA:
        ds = coder.get("dict", 1 << 16)
        lc, lp, pb = coder.get("lc", 3), coder.get("lp", 0), coder.get("pb", 2)
        coder["props"] = lzma_props(lc, lp, pb, ds)
        f = [{"id": lzma.FILTER_LZMA1, "dict_size": ds, "lc": lc, "lp": lp, "pb": pb}]
        c = lzma.LZMACompressor(format=lzma.FORMAT_RAW, filters=f)
        return c.compress(data) + c.flush()
    if m == M_DELTA:
        dist = coder.get("dist", 1)
        coder["props"] = bytes([dist - 1])
        out = bytearray(data)
        for i in range(len(data) - 1, dist - 1, -1):
            out[i] = (data[i] - data[i - dist]) & 0xFF
        return bytes(out)
    if m in BCJ_IDS:
        coder.setdefault("props", None)
        enc = getattr(_bcj_mod(), BCJ_IDS[m] + "Encoder")()
        return enc.encode(data) + enc.flush()
    if m == M_BZIP2:
        coder.setdefault("props", None)
        return bz2.compress(data, coder.get("level", 9))
    if m == M_DEFLATE:
        coder.setdefault("props", None)
        c = zlib.compressobj(coder.get("level", 6), zlib.DEFLATED, -15)
        return c.compress(data) + c.flush()
    if m == M_DEFLATE64:
        import inflate64
        coder.setdefault("props", None)
        c = inflate64.Deflater()
        enc = c.deflate(data) + c.flush()
        # inflate64's *encoder* mis-codes matches of length 260..262 and 65790..65792 (KF-47): a stream that its own decoder does
        # not turn back into the input cannot serve as a reference archive
        if inflate64.Inflater().inflate(enc) != data:
            raise Unsupported("inflate64 encoder defect (KF-47) on this input")
        return enc
    if m == M_ZSTD:
        import pyzstd
        level = coder.get("level", 3)
        coder["props"] = bytes([pyzstd.zstd_version_info[0], pyzstd.zstd_version_info[1], level, 0, 0])
        c = pyzstd.ZstdCompressor(level)
        return c.compress(data) + c.flush()
    if m == M_BROTLI:
        import brotli
        level = coder.get("level", 5)
        coder["props"] = bytes([1, 0, level])
        return brotli.compress(data, quality=level)
    if m == M_PPMD:
        import pyppmd
        order, mem = coder.get("order", 6), coder.get("mem", 1 << 20)
        coder["props"] = struct.pack("<BL", order, mem)
        e = pyppmd.Ppmd7Encoder(order, mem)
        return e.encode(data) + e.flush()
    if m == M_AES:
        cycles = coder.get("cycles", 4)
        salt = bytes.fromhex(coder.get("salt", ""))
        iv = bytes.fromhex(coder.get("iv", "00112233445566778899aabbccddeeff"))
        coder["props"] = aes_props_encode(cycles, salt, iv)
        return aes_encrypt(data, password, cycles, salt, iv)
    raise Unsupported("encode method " + m)


def encode_chain(coders: list, data: bytes, password=None):
    """coders are listed in DECODE order (coder 0 consumes the packed stream); encoding
    applies them last-to-first.  Returns (packed, unpack sizes in coder order)."""
    sizes = [0] * len(coders)
    cur = data
    for i in range(len(coders) - 1, -1, -1):
        sizes[i] = len(cur)
        cur = encode_stage(coders[i], cur, password)
    return cur, sizes


# ---------------------------------------------------------------- decode


def decode_stage(m: str, props, data: bytes, out_size: int, password=None) -> bytes:
    if m == M_COPY:
        return data
    if m == M_LZMA2:
        if props is None or len(props) != 1:
            raise CoderError("LZMA2 props")
        f = [{"id": lzma.FILTER_LZMA2, "dict_size": max(4096, lzma2_dict_from_code(props[0]))}]
        d = lzma.LZMADecompressor(format=lzma.FORMAT_RAW, filters=f)
        try:
            return d.decompress(data, out_size) if out_size else b""
        except lzma.LZMAError as e:
            raise CoderError("LZMA2: %s" % e)
    if m == M_LZMA:
        lc, lp, pb, ds = lzma_props_decode(props or b"")
        f = [{"id": lzma.FILTER_LZMA1, "dict_size": max(4096, ds), "lc": lc, "lp": lp, "pb": pb}]
        d = lzma.LZMADecompressor(format=lzma.FORMAT_RAW, filters=f)
        try:
            return d.decompress(data, out_size) if out_size else b""
        except lzma.LZMAError as e:
            raise CoderError("LZMA: %s" % e)
    if m == M_DELTA:
        if props is None or len(props) != 1:
            raise CoderError("Delta props")
        dist = props[0] + 1
        out = bytearray(data)
        for i in range(dist, len(out)):
            out[i] = (out[i] + out[i - dist]) & 0xFF
        return bytes(out)
    if m in BCJ_IDS:
        dec = getattr(_bcj_mod(), BCJ_IDS[m] + "Decoder")(len(data))
        out = dec.decode(data)
        # the decoder may hold back the tail until it knows the stream ended
        guard = 0
        while len(out) < len(data) and guard < 4:
            out += dec.decode(b"")
            guard += 1
        if len(out) < len(data):
            # a branch filter never alters the final partial unit (IA64: < 16 bytes); the
            # library holds it back, the format copies it
            out += data[len(out):]
        return out
    if m == M_BZIP2:
        try:
            d = bz2.BZ2Decompressor()
            out = d.decompress(data)
            return out
        except (OSError, ValueError) as e:
            raise CoderError("BZip2: %s" % e)
    if m == M_DEFLATE:
        try:
            d = zlib.decompressobj(-15)
            return d.decompress(data) + d.flush()
        except zlib.error as e:
            raise CoderError("Deflate: %s" % e)
    if m == M_DEFLATE64:
        import inflate64
        try:
            d = inflate64.Inflater()
            return d.inflate(data)
        except Exception as e:
            raise CoderError("Deflate64: %s" % e)
    if m == M_ZSTD:
        import pyzstd
        try:
            return pyzstd.decompress(data)
        except Exception as e:
            raise CoderError("ZStandard: %s" % e)
    if m == M_BROTLI:
        import brotli
        try:
            return brotli.decompress(data)
        except Exception as e:
            raise CoderError("Brotli: %s" % e)
    if m == M_PPMD:
        import pyppmd
        if props is None or len(props) not in (5, 7):
            raise CoderError("PPMd props")
        order, mem = struct.unpack("<BL", props[:5])
        try:
            d = pyppmd.Ppmd7Decoder(order, mem)
            out = d.decode(data, out_size) if out_size else b""
            guard = 0
            while len(out) < out_size and guard < 8:
                more = d.decode(b"\0" if d.needs_input else b"", out_size - len(out))
                if not more:
                    guard += 1
                out += more
            return out
        except Exception as e:
            raise CoderError("PPMd: %s" % e)
    if m == M_AES:
        if password is None:
            raise Unsupported("password required")
        return aes_decrypt(data, password, props or b"")
    raise Unsupported("decode method " + m)
