#!/usr/bin/env python3
"""Apply every seeded change to /repo in turn, run the quick check of its property (and extra checks given in
seeded/<id>/also.txt), undo it, and record which checks catch it.  Writes seeded/RESULTS.md and updates meta.json."""
import glob
import json
import os
import re
import subprocess
import sys
import time

VERIF = os.path.dirname(os.path.dirname(os.path.abspath(__file__)))


def sh(cmd, **kw):
    return subprocess.run(cmd, shell=True, capture_output=True, text=True, **kw)


def main():
    only = sys.argv[1:]
    if sh("git -C /repo diff --quiet").returncode != 0:
        print("REPO DIRTY")
        return 3
    rows = []
    for d in sorted(glob.glob(os.path.join(VERIF, "seeded", "*"))):
        mid = os.path.basename(d)
        if not os.path.isdir(d) or (only and mid not in only):
            continue
        patch = os.path.join(d, "patch.diff")
        meta_p = os.path.join(d, "meta.json")
        meta = json.load(open(meta_p)) if os.path.exists(meta_p) else {}
        prop = meta.get("property", mid.split("-")[0])
        checks = [prop]
        also = os.path.join(d, "also.txt")
        if os.path.exists(also):
            checks += open(also).read().split()
        if sh("git -C /repo apply --check %s" % patch).returncode != 0:
            rows.append((mid, prop, "PATCH DOES NOT APPLY", "", 0))
            continue
        sh("git -C /repo apply %s" % patch)
        try:
            res = {}
            for c in checks:
                t0 = time.time()
                r = sh("cd %s && timeout 1500 /venv/bin/python run.py %s --tier quick" % (VERIF, c))
                sigs = re.findall(r"signature=(\{.*?\}) count", r.stdout)
                res[c] = {"exit": r.returncode, "violations": len(re.findall(r"^VIOLATION", r.stdout, re.M)), "first_signature": sigs[0] if sigs else None,
                          "wall_s": round(time.time() - t0, 1)}
        finally:
            sh("git -C /repo checkout -- .")
        caught = [c for c, v in res.items() if v["exit"] == 1]
        meta["detected_by_quick"] = caught
        meta["matrix"] = res
        json.dump(meta, open(meta_p, "w"), indent=1)
        rows.append((mid, prop, "caught by " + ",".join(caught) if caught else "MISSED", (res[checks[0]]["first_signature"] or "")[:140], res[checks[0]]["wall_s"]))
        print(rows[-1], flush=True)
    with open(os.path.join(VERIF, "seeded", "RESULTS.md"), "w") as f:
        f.write("# Seeded changes vs quick checks (tools/mutant_matrix.py, repo HEAD %s)\n\n" % sh("git -C /repo rev-parse --short HEAD").stdout.strip())
        f.write("| seeded change | property | result | first signature | wall s |\n|---|---|---|---|---|\n")
        for r in rows:
            f.write("| %s | %s | %s | `%s` | %s |\n" % r)
    return 0


if __name__ == "__main__":
    sys.exit(main())
