#!/usr/bin/env python3
"""Apply every seeded change in turn to a scratch worktree of /repo's HEAD (never to /repo itself), run the quick check of its
property (and extra checks given in seeded/<id>/also.txt) against that worktree with evidence/replays redirected to a scratch
directory, and record which checks catch it.  Writes seeded/RESULTS.md and updates meta.json.
usage: tools/mutant_matrix.py [-j N] [seeded ids ...]"""
import glob
import json
import os
import re
import subprocess
import sys
import time

VERIF = os.path.dirname(os.path.dirname(os.path.abspath(__file__)))


def sh(cmd, timeout=None, **kw):
    """run a shell command in a session of its own; on timeout the whole process group is killed (a check left hanging by a
    seeded change must not keep the pipe open and block the matrix)"""
    import signal

    p = subprocess.Popen(cmd, shell=True, stdout=subprocess.PIPE, stderr=subprocess.PIPE, text=True, start_new_session=True, **kw)
    try:
        out, err = p.communicate(timeout=timeout)
    except subprocess.TimeoutExpired:
        try:
            os.killpg(p.pid, signal.SIGKILL)
        except OSError:
            pass
        out, err = p.communicate()
    return subprocess.CompletedProcess(cmd, p.returncode, out, err)


def one(d):
    import shutil
    import tempfile

    if True:
        mid = os.path.basename(d)
        patch = os.path.join(d, "patch.diff")
        meta_p = os.path.join(d, "meta.json")
        meta = json.load(open(meta_p)) if os.path.exists(meta_p) else {}
        prop = meta.get("property", mid.split("-")[0])
        checks = [prop]
        also = os.path.join(d, "also.txt")
        if os.path.exists(also):
            checks += open(also).read().split()
        wt = tempfile.mkdtemp(prefix="mutwt.", dir="/tmp")
        out = tempfile.mkdtemp(prefix="mutout.", dir="/tmp")
        os.rmdir(wt)
        if sh("git -C /repo worktree add --detach %s HEAD -q" % wt).returncode != 0:
            return (mid, prop, "NO WORKTREE", "", 0)
        try:
            if sh("git -C %s apply %s" % (wt, patch)).returncode != 0:
                return (mid, prop, "PATCH DOES NOT APPLY", "", 0)
            res = {}
            for c in checks:
                t0 = time.time()
                r = sh("cd %s && VERIF_REPO=%s VERIF_OUT=%s /venv/bin/python run.py %s --tier quick" % (VERIF, wt, out, c), timeout=1500)
                sigs = re.findall(r"signature=(\{.*?\}) count", r.stdout)
                res[c] = {"exit": r.returncode, "violations": len(re.findall(r"^VIOLATION", r.stdout, re.M)), "first_signature": sigs[0] if sigs else None,
                          "wall_s": round(time.time() - t0, 1)}
        finally:
            sh("git -C /repo worktree remove --force %s" % wt)
            shutil.rmtree(out, ignore_errors=True)
        caught = [c for c, v in res.items() if v["exit"] == 1]
        meta["detected_by_quick"] = caught
        meta["matrix"] = res
        json.dump(meta, open(meta_p, "w"), indent=1)
        return (mid, prop, "caught by " + ",".join(caught) if caught else "MISSED", (res[checks[0]]["first_signature"] or "")[:140], res[checks[0]]["wall_s"])


def main():
    from concurrent.futures import ThreadPoolExecutor

    args = sys.argv[1:]
    jobs = 1
    if args[:1] == ["-j"]:
        jobs = int(args[1])
        args = args[2:]
    dirs = [d for d in sorted(glob.glob(os.path.join(VERIF, "seeded", "*"))) if os.path.isdir(d) and (not args or os.path.basename(d) in args)]
    rows = []
    with ThreadPoolExecutor(jobs) as ex:
        for r in ex.map(one, dirs):
            rows.append(r)
            print(r, flush=True)
    with open(os.path.join(VERIF, "seeded", "RESULTS.md"), "w") as f:
        f.write("# Seeded changes vs quick checks (tools/mutant_matrix.py, repo HEAD %s)\n\n" % sh("git -C /repo rev-parse --short HEAD").stdout.strip())
        f.write("| seeded change | property | result | first signature | wall s |\n|---|---|---|---|---|\n")
        for r in rows:
            f.write("| %s | %s | %s | `%s` | %s |\n" % r)
    return 0


if __name__ == "__main__":
    sys.exit(main())
