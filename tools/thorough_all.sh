#!/bin/sh
# usage: tools/thorough_all.sh Cxx ...   (run from a /verif checkout; honours VERIF_REPO, VERIF_SEED)
# runs the thorough tier of the given checks one after the other and prints one summary block per check
cd "$(dirname "$0")/.."
/venv/bin/python tools/setup.py >/dev/null 2>&1
for p in "$@"; do
  t0=$(date +%s)
  /venv/bin/python run.py "$p" --tier thorough > "thorough_$p.log" 2>&1
  rc=$?
  t1=$(date +%s)
  echo "== $p rc=$rc wall=$((t1-t0))s"
  grep -E "VIOLATION|KNOWN-FINDING|evaluations=|Traceback|Error" "thorough_$p.log" | head -20
done
