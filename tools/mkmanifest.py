#!/usr/bin/env python3
"""Generate MANIFEST.json from the table below (keeps it valid at all times)."""
import json
import os
import sys

VERIF = os.path.dirname(os.path.dirname(os.path.abspath(__file__)))
sys.path.insert(0, VERIF)

# id -> (category, technique, level text, level note, design ref)
TABLE = {
    "C01": ("exploration", "Hypothesis-generated member lists x filter chains x header modes x targets x block sizes; round-trip oracle against the generated model",
            "Generated round trips over the documented filter-chain grammar, boundary-biased content lengths, all target kinds and patched I/O block / chunk sizes; every delivered name list and byte string is compared with the generated model. Exploration, not proof: the space is unbounded.",
            "Trusted: the codec libraries (lzma, bz2, zlib, pyzstd, pyppmd, brotli, inflate64, bcj), multivolumefile; block size and chunk limit are set by harness-side attribute patching.", "5/C01"),
    "C02": ("exploration", "Hypothesis-generated directory trees; lstat/readlink/read comparison of source and extracted tree",
            "Generated trees (empty dirs, zero-byte files, odd modes, sub-second mtimes, relative links sideways/upward) archived with writeall / shutil front end and extracted; trees compared entry by entry incl. modes and mtimes within 5 us.",
            "Runs as root (permission bits never block reading); filesystem timestamp resolution of the scratch filesystem.", "5/C02"),
    "C03": ("fault_enumeration", "exhaustive enumeration of small hostile archives (reference writer, permissive) + Hypothesis sampling; audit-hook jail and before/after snapshot oracle",
            "All 1- and 2-entry archives over the hostile alphabet and the link-through-link 3-entry slice are enumerated, larger ones sampled; every filesystem-modifying audit event is resolved against the jail at the moment of the call and the surroundings are snapshotted before/after.",
            "Trusted: CPython audit events for open/os.* calls, os.path.realpath; ref7z permissive writer builds the archives.", "5/C03"),
    "C04": ("fault_enumeration", "exhaustive single-bit flips of small archives + sampled byte/trunc/burst/swap faults; member-by-member comparison with the pristine model; test()/testzip() consistency",
            "Every bit position of small base archives (py7zr- and reference-written, each codec family, AES, raw/encoded header, 1..4 folders) is flipped; other fault kinds sampled. A read that returns normally must deliver only original (name, bytes) pairs; test/testzip must not certify what extraction rejects.",
            "CRC-32 collisions (2^-32) ignored for multi-bit faults outside burst<=32; watchdog for hangs (C05 territory) reported as inconclusive here.", "5/C04"),
    "C05": ("exploration", "structure-aware mutation of the decoded header with CRC re-sealing + byte-level mutation, call sequences, in sandboxed children with wall-clock watchdog and peak-RSS measurement",
            "Mutated headers (counts/sizes/offsets/ids/vectors set to extreme values, sections dropped/duplicated) are re-sealed so the parser is entered, then driven through generated read-call sequences in a child process; each call must return or raise an Exception within the time and memory bound and the child must survive.",
            "Liveness is approximated by a 20 s bound for inputs whose legitimate work is < 1 s; memory by VmHWM growth <= 512 MiB; 7zAES cycle counts and dictionary sizes that legitimately cost seconds/hundreds of MiB are kept out of the value sets.", "5/C05"),
    "C06": ("exploration", "Hypothesis-generated logical archives x physical layouts emitted by an independent reference writer; py7zr's view compared with the logical model; third-party fixtures cross-checked with the reference reader",
            "Layouts py7zr's writer never produces (several folders, interleaved empty-stream entries, folder-level CRCs, packed CRCs, packpos>0, kDummy, EmptyFile vector, partially defined vectors, raw/LZMA/AES headers) are generated and a covering pass enumerates the layout switches; names, kinds, sizes, times, attributes and bytes are compared.",
            "ref7z is validated against the 7-Zip-written fixtures (all CRCs verify) and by three-way comparison with the generating model; no 7-Zip binary in the sandbox.", "5/C06"),
    "C07": ("exploration", "generated py7zr-written archives (all chains/header modes/append sessions) parsed by an independent strict reader with an independent 7zAES KDF",
            "Every structural invariant of the format (offsets/sizes/CRCs of the signature header, exact tiling of the data area, per-coder unpack sizes, substream sums, every stored CRC, property sizes, vector lengths) is checked by ref7z.reader on generated output and the recovered members must equal the model.",
            "ref7z.reader as trusted base (validated on third-party fixtures).", "5/C07"),
    "C08": ("exploration", "Hypothesis rule-based state machine over create/append sessions with an archive model; read back by py7zr and by the reference reader after every session",
            "Histories w(M0,F0) a(M1,F1).. with bases written by py7zr, by the reference writer (foreign layouts) or taken from fixtures; after every session names, order, bytes and metadata of all earlier members must be unchanged.",
            "ref7z as second reader; password constant per history.", "5/C08"),
    "C09": ("exploration", "exhaustive target subsets for small archives + Hypothesis; extract(T) compared with the restriction of extractall on a fresh object; jail snapshot of created paths",
            "All subsets (list/set, trailing slash, recursive) for archives of <= 6 members are enumerated, larger sampled; delivered set and bytes must equal the restriction of a full extraction and nothing else may be created.",
            "Names are prefix-free except along '/' as the property's quantifier states.", "5/C09"),
    "C10": ("exploration", "generated archives (py7zr- and reference-written); listing interfaces compared with extraction results and the model",
            "getnames/namelist/list/files agree and match the model order; sizes and CRCs equal those of extracted bytes; getinfo finds every name; archiveinfo totals/blocks/solid/method names and needs_password() match the coders present.",
            "Method display names are read from SupportedMethods.methods; archiveinfo only on path-opened archives.", "5/C10"),
    "C11": ("exploration", "generated encrypted archives; byte-level leak search, key-less structural decode by the reference reader, IV/ciphertext uniqueness, wrong/missing password outcomes",
            "No 16-byte window of plaintext (nor, with header encryption, any name encoding) occurs in the archive; every folder's outermost coder is 7zAES and inner decoders fed the ciphertext do not yield plaintext; IVs are non-zero and pairwise distinct; absent/wrong passwords never deliver differing bytes.",
            "Cryptographic strength of AES/SHA-256 is assumed; IV uniqueness sub-check uses the real RNG and asserts inequality only.", "5/C11"),
    "C12": ("exploration", "Hypothesis rule-based state machine over read-mode sessions + exhaustive sequences of length <= 2/3; model = results on a freshly opened object; archive hash before/after",
            "Call sequences over the read API under the documented reset discipline; each result must equal the fresh-object result, test/testzip verdicts must be right at any point, and the archive bytes must be untouched. Runs in sandboxed children with a watchdog.",
            "Sequences of length <= 5; exhaustive up to length 2 (quick) / 3 (thorough).", "5/C12"),
    "C13": ("exploration", "harness-owned deterministic scheduler gating worker threads at output events; generated and enumerated schedules; thread/process/sequential modes; one-folder-damaged variants",
            "Worker interleavings are chosen by the harness at output-write granularity; outputs must be identical under every schedule and mode, and a damaged folder must make extract/extractall raise in every mode.",
            "Interleavings at the granularity of events the harness can see (factory create/write, file opens); process mode cannot be scheduled, only repeated.", "5/C13"),
    "C14": ("fault_enumeration", "recorded seek/write trace of create/append sessions; every byte-prefix crash image enumerated and opened with py7zr and the reference reader",
            "For small sessions every crash image (each op boundary and each byte prefix of each write, plus dropped/reordered last block) is rebuilt and opened; it must fail or deliver the complete post- (or, for append, pre-) session member list.",
            "Crash points at the granularity of py7zr's own write stream; OS-level reordering approximated by two variants.", "5/C14"),
    "C15": ("fault_enumeration", "enumerated and generated write histories with one injected fault (missing source, EACCES/EIO on open/lstat, read failing after k bytes, rejected arcname); archive model of successful calls",
            "The exception must reach the caller, the closed archive must contain exactly the successful calls' members, and the failed source must not be touched again; mid-read failures must never yield a file that opens with wrong contents.",
            "Faults injected through wrapped pathlib/io objects owned by the harness.", "5/C15"),
    "C16": ("exploration", "exhaustive enumeration of names over the component alphabet (<= 6 components) against an independent lexical definition; archive-level effects on a stratified sample; write/writeall over a scratch tree",
            "Every name over {a, b, .., ., '', c:} with optional leading '/', '//' and trailing '/' up to 6 components is judged by py7zr and by an independent resolver (reject iff absolute or depth < 0); accepted names must appear normalised in the listing, rejected ones must raise ValueError and leave the archive unchanged.",
            "Exhaustive for the stated slice; random Unicode names on top.", "5/C16"),
    "C17": ("exploration", "exhaustive NUMBER classes and small values, Hypothesis 64-bit values with all legal encoding lengths, boolean vectors of every length 0..130, names/FILETIMEs/CRC lists; differential against a spec-derived codec; whole-header round trips through py7zr and the reference reader",
            "All 256 first-byte classes x low-byte patterns and all values < 2^16 (quick) / 2^22 (thorough) are enumerated; random 64-bit values with non-minimal encodings, vectors with and without the all-defined shortcut, and whole headers with partially defined vectors and extreme numbers are generated; py7zr and the reference codec must agree in both directions.",
            "ref7z.codec written from 7zFormat.txt; validated on third-party fixtures.", "5/C17"),
    "C18": ("exploration", "recording ExtractCallback with instantaneous and gate-blocked handlers under the harness scheduler; event-log oracle computed from the member map",
            "pre first, post last, one start then one end per processed member with the right size, updates summing to delivered bytes, and a complete log at the moment close() returns, under generated worker/reporter interleavings.",
            "Same scheduling granularity limits as C13.", "5/C18"),
    "C19": ("exploration", "python -m py7zr as a subprocess on generated trees, damaged/encrypted/unsupported archives and volume-size options; exit status and filesystem compared with the model and the library",
            "c+x reproduces the tree, l lists library names, a preserves earlier members, every documented -v SIZE form works, and exit status is 0 exactly when the operation succeeded (expected outcome derived from what was damaged, not from the library verdict).",
            "Subprocess start-up dominates cost; names without line breaks for the l comparison.", "5/C19"),
    "C20": ("exploration", "large generated members (beyond the 128 MB chunk and the 700 MiB budget) per codec family x operation in fresh child processes; peak RSS (VmHWM) oracle",
            "For each codec family and for write / extract-to-path / extract-to-factory / testzip the peak resident set growth must stay within 700 MiB while the extracted length and CRC equal the generator's.",
            "Samples a few points of an unbounded size axis; RLIMIT_AS only protects the host.", "5/C20"),
}


# what was added to each check after the first version of the table (sensitivity rounds 2-4, see DESIGN.md section 13)
ADDED = {
    "C01": "Later additions: creation mode 'x', buffered file-like sources, CRC-0 contents, 2^14/2^21 sizes. Open findings in dependencies (pyppmd KF-04 and KF-72, multivolumefile KF-45, inflate64 KF-47, bcj KF-49) are pinned under regress/C01 and matched only when the library, run alone on the exact input, shows the defect. One case's work is bounded by generated size (at most 40000 block/chunk steps, at most 900 volumes; the rest is counted as skipped), not by the clock.",
    "C02": "Later additions: every mode 0o400..0o777, writer block sizes 1/4 KiB and one file over 1 MiB, links to links, prefix-named sibling directories under dereference, working directory inside the tree, epoch mtime.",
    "C03": "Later additions: re-pointing slices (3/4/6-entry sequences in which a link is inside when created and re-pointed later), destination None with chdir after open, names extending the destination's name.",
    "C04": "Later additions: extraction with a progress callback attached, a 40-folder base, bases with CRC-0 members, PackPos > 0 and attribute-less directories.",
    "C05": "Later additions: exhaustive single- and two-operation sweeps of the header tree, nested/self-referential/cyclic encoded headers, counts in the hundreds of thousands (quadratic work), a 600 MiB 'symbolic link', a size-limited writer; the thorough tier runs an atheris/libFuzzer campaign with CRC re-sealing.",
    "C06": "Later additions: ArchiveProperties, kStartPos, kComment, one-byte / salted / short-IV / 0x3F 7zAES properties, partial pack CRCs.",
    "C07": "Later additions: non-normalised Unicode passwords, NUMBER boundary sizes, first session opened with 'a' on a garbage file.",
    "C08": "Later additions: BCJ2 fixtures as opaque bases, a base with an empty member name, partial pack CRCs in reference bases.",
    "C09": "Later additions: empty targets, folder-level / absent CRCs in solid reference archives.",
    "C10": "Later additions: stored CRCs (also 0) must be reported, 7zAES-first chains, passwords supplied for unencrypted archives, header-level listing of every fixture (also BCJ2).",
    "C11": "Later additions: header encryption requested by flag or setter in append sessions and followed by set_encoded_header_mode(True), non-normalised passwords, global PRNGs seeded before the uniqueness check.",
    "C12": "Later additions: nine damaged archives (verdicts must stay right, also after a failed call), sessions of 320 calls, a 1.3 MiB password-protected archive, slow writers.",
    "C13": "Later additions: disk output scheduled at file-system audit events, shared output directory, testzip in all modes with 30000-character names, extract(T) selections, factory output in process mode, duplicate member names.",
    "C14": "Later additions: sessions with writeall() followed by more calls and with a failing call in the middle.",
    "C15": "Later additions: FIFO sources, zero-length failing sources, members with CRC 0, the exception leaving the with-block.",
    "C16": "Later additions: names re-entering the internal probe directory, payload types (bytes/str/bytearray/memoryview/streams), write() of '/', '//', '/tmp/'.",
    "C17": "Later additions: every BMP scalar value at each position of a name, names beyond 2^16 units, folder-level CRCs in rewritten headers, a 1.6 MB packed encoded header.",
    "C18": "Later additions: link/empty/directory members, an earlier extraction in the same session (with and without callback), mp=True, a falsy callback object.",
    "C19": "Later additions: archive stems with dots, nested source paths, epoch mtime and mode 000, mtime comparison.",
    "C20": "Later additions: append mode, finite RLIMIT_DATA, four folders side by side, half-compressible content, Deflate64 in the quick tier. Leaks inside pyppmd, inflate64 and bcj (KF-61, KF-62, KF-71) are matched only while a measurement of the library alone shows them.",
}


def main():
    from vlib.runner import CHECK_MODULES

    built = []
    for pid, mod in sorted(CHECK_MODULES.items()):
        if os.path.exists(os.path.join(VERIF, mod.replace(".", "/") + ".py")):
            built.append(pid)
    withdrawn = {}
    wpath = os.path.join(VERIF, "tools", "withdrawn.json")
    if os.path.exists(wpath):
        withdrawn = json.load(open(wpath))
    checks = []
    na = []
    for pid in sorted(TABLE):
        cat, tech, text, note, ref = TABLE[pid]
        if pid in built and pid not in withdrawn:
            checks.append({
                "property_id": pid,
                "quick_cmd": "/venv/bin/python run.py %s --tier quick" % pid,
                "thorough_cmd": "/venv/bin/python run.py %s --tier thorough" % pid,
                "evidence_file": "/verif/evidence/%s.json" % pid,
                "replay_cmd_template": "/venv/bin/python run.py %s --replay {path}" % pid,
                "engine": "pbt-runner",
                "level_claimed": {"category": cat, "text": text, "design_ref": "DESIGN.md section " + ref},
                "level_note": note + (" " + ADDED[pid] if pid in ADDED else ""),
                "technique": tech,
            })
        else:
            na.append({"property_id": pid, "reason": withdrawn.get(pid, "check not built yet (planned with property-based testing; see DESIGN.md section 10) - not claimed until it exists")})
    hooks_path = os.path.join(VERIF, "tools", "hook_commits.json")
    hook_commits = json.load(open(hooks_path)) if os.path.exists(hooks_path) else []
    m = {
        "version": 1,
        "setup_cmd": "/venv/bin/python tools/setup.py",
        "hooks": {
            "guard": "PY7ZR_VERIF",
            "enable": "no source hooks: checks import /repo's working tree directly (PYTHONPATH=/repo) and observe through public API surfaces; PY7ZR_VERIF=1 is exported by run.py but nothing in /repo reads it",
            "baseline_off_cmd": "cd /repo && env -u PY7ZR_VERIF /venv/bin/python -m pytest -ra -q -p no:cacheprovider --timeout=900 --continue-on-collection-errors",
            "source_commits": hook_commits,
            "add_only": True,
        },
        "engines": [
            {"name": "pbt-runner", "path": "run.py", "serves_properties": [c["property_id"] for c in checks],
             "kind_free_text": "Hypothesis strategies / rule-based state machines + finite enumeration, 16-way sharded, failure bucketing by signature, JSON ddmin, replay files"},
            {"name": "ref7z", "path": "ref7z/", "serves_properties": ["C03", "C04", "C05", "C06", "C07", "C08", "C10", "C11", "C14", "C17"],
             "kind_free_text": "independent 7z container reader/writer (oracle); token-tree writer doubles as structure-aware mutator"},
        ],
        "checks": checks,
        "notes": "All checks are property-based tests / fuzzers against explicit oracles (see DESIGN.md). known_findings.json lists open findings (suppressed by signature) and fixed ones (suppress nothing).",
        "not_applicable": na,
    }
    with open(os.path.join(VERIF, "MANIFEST.json"), "w") as f:
        json.dump(m, f, indent=1)
    try:
        import jsonschema

        jsonschema.validate(m, json.load(open("/root/.vp/MANIFEST.schema.json")))
        print("MANIFEST valid; claimed:", " ".join(c["property_id"] for c in checks))
    except ImportError:
        print("MANIFEST written (jsonschema not available to validate); claimed:", " ".join(c["property_id"] for c in checks))


if __name__ == "__main__":
    main()
