#!/bin/bash
# usage: tools/try_mutant.sh <ABSOLUTE patch.diff> <Cxx> [Cyy ...]
# Applies the patch to a scratch worktree of /repo's HEAD (never to /repo itself), runs the checks against it with
# evidence and replay files redirected to a scratch directory, and removes both afterwards.
set -u
patch="$1"; shift
cd "$(dirname "$0")/.."
wt=$(mktemp -d /tmp/mutwt.XXXXXX); out=$(mktemp -d /tmp/mutout.XXXXXX)
rmdir "$wt"
git -C /repo worktree add --detach "$wt" HEAD -q || exit 3
trap 'git -C /repo worktree remove --force "$wt" 2>/dev/null; [ -n "${MUT_KEEP:-}" ] || rm -rf "$out"' EXIT
git -C "$wt" apply "$patch" || { echo "patch does not apply"; exit 3; }
for c in "$@"; do
  echo "=== $c on $(basename $(dirname $patch))/$(basename $patch)"
  VERIF_REPO="$wt" VERIF_OUT="$out" timeout ${MUT_TIMEOUT:-900} /venv/bin/python run.py $c --tier ${MUT_TIER:-quick} 2>&1 | grep -E "VIOLATION|KNOWN-FINDING|HARNESS|tier=|signature=" | head -${MUT_LINES:-8}
  echo "exit=${PIPESTATUS[0]}"
done
[ -n "${MUT_KEEP:-}" ] && echo "outputs kept in $out"
