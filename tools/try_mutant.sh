#!/bin/bash
# usage: tools/try_mutant.sh <patch.diff> <Cxx> [Cyy ...]   -- applies the patch to /repo, runs quick checks, reverts
set -u
patch="$1"; shift
cd /verif
if ! git -C /repo diff --quiet; then echo "REPO DIRTY - abort"; exit 3; fi
git -C /repo apply "$patch" || { echo "patch does not apply"; exit 3; }
trap 'git -C /repo checkout -- . ' EXIT
for c in "$@"; do
  echo "=== $c on $(basename $(dirname $patch))/$(basename $patch)"
  timeout ${MUT_TIMEOUT:-900} /venv/bin/python run.py $c --tier ${MUT_TIER:-quick} 2>&1 | grep -E "VIOLATION|KNOWN-FINDING|HARNESS|tier=|signature=" | head -${MUT_LINES:-8}
  echo "exit=${PIPESTATUS[0]}"
done
