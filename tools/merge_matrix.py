#!/usr/bin/env python3
"""Merge the printed rows of several tools/mutant_matrix.py runs (later logs win) into seeded/RESULTS.md.
usage: tools/merge_matrix.py log1 log2 ..."""
import ast
import glob
import json
import os
import subprocess
import sys

VERIF = os.path.dirname(os.path.dirname(os.path.abspath(__file__)))
rows = {}
for log in sys.argv[1:]:
    for line in open(log):
        line = line.strip()
        if line.startswith("('"):
            try:
                r = ast.literal_eval(line)
            except Exception:
                continue
            rows[r[0]] = r
present = {os.path.basename(d) for d in glob.glob(os.path.join(VERIF, "seeded", "*")) if os.path.isdir(d)}
head = subprocess.run("git -C /repo rev-parse --short HEAD", shell=True, capture_output=True, text=True).stdout.strip()
out = ["# Seeded changes vs quick checks (tools/mutant_matrix.py; /repo HEAD %s; runs merged by tools/merge_matrix.py)" % head, "",
       "Each change is applied to a scratch worktree of /repo's HEAD and the quick check of its property (plus the checks in also.txt) is run against it.",
       "`PATCH DOES NOT APPLY`: the change conflicts with a later fix commit (see meta.json `stale`); `regress-KF-nn` rows are reverse patches of fix commits.", "",
       "| seeded change | property | result | first signature | wall s |", "|---|---|---|---|---|"]
n = {"caught": 0, "missed": 0, "noapply": 0}
for mid in sorted(rows):
    if mid not in present:
        continue
    r = rows[mid]
    out.append("| %s | %s | %s | `%s` | %s |" % (r[0], r[1], r[2], str(r[3]).replace("|", "/"), r[4]))
    n["caught" if r[2].startswith("caught") else ("noapply" if "APPLY" in r[2] else "missed")] += 1
out.insert(5, "Totals: %d caught, %d missed, %d do not apply; %d seeded directories without a row." % (n["caught"], n["missed"], n["noapply"], len(present - set(rows))))
open(os.path.join(VERIF, "seeded", "RESULTS.md"), "w").write("\n".join(out) + "\n")
print(n, sorted(present - set(rows)))
