#!/bin/bash
# usage: tools/confirm_mutant.sh <Cxx> <n>   -- confirm /tmp/wtout/Cxx/patch<n>.diff in a scratch worktree, then keep it under seeded/
set -u
id="$1"; n="$2"
src=/tmp/wtout/$id
wt=/tmp/cw/$id-$n
out=/verif/seeded/$id-$n
mkdir -p /tmp/cw
git -C /repo worktree remove --force $wt 2>/dev/null
git -C /repo worktree add -q --detach $wt HEAD || exit 3
cleanup() { git -C /repo worktree remove --force $wt 2>/dev/null; rm -rf $wt; }
trap cleanup EXIT
cd $wt
cp $src/demo$n.py $wt/demo$n.py
timeout 300 /venv/bin/python demo$n.py >/tmp/cw/$id-$n.clean.log 2>&1; clean_rc=$?
git apply $src/patch$n.diff || { echo "$id-$n: patch does not apply to current HEAD"; exit 3; }
timeout 300 /venv/bin/python demo$n.py >/tmp/cw/$id-$n.mut.log 2>&1; mut_rc=$?
suite=$(timeout 1500 /venv/bin/python -m pytest -q -p no:cacheprovider --timeout=900 -n 4 2>&1 | grep -E "^[0-9]+ passed|passed|failed" | tail -1)
echo "$id-$n: demo clean rc=$clean_rc, demo mutated rc=$mut_rc, suite: $suite"
if [ "$clean_rc" = 0 ] && [ "$mut_rc" != 0 ] && echo "$suite" | grep -q "335 passed" && ! echo "$suite" | grep -q failed; then
  mkdir -p $out
  cp $src/patch$n.diff $out/patch.diff
  cp $src/demo$n.py $out/demo.py
  /venv/bin/python - "$src/meta$n.json" "$out/meta.json" "$id" "$suite" "$clean_rc" "$mut_rc" <<'PY'
import json,sys
src,dst,pid,suite,c,m=sys.argv[1:]
try: meta=json.load(open(src))
except Exception as e: meta={"what":"(meta unreadable: %s)"%e}
meta["property"]=pid.rstrip("abcdefgh")
meta["confirmed_by_main"]={"suite_with_change":suite,"demo_rc_clean":int(c),"demo_rc_with_change":int(m),"base_commit":__import__("subprocess").run(["git","-C","/repo","rev-parse","--short","HEAD"],capture_output=True,text=True).stdout.strip()}
json.dump(meta,open(dst,"w"),indent=1)
PY
  echo "$id-$n: KEPT"
else
  echo "$id-$n: NOT CONFIRMED"
fi
