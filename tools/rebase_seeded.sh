#!/bin/bash
# usage: tools/rebase_seeded.sh <seeded id> ...
# Re-bases seeded patches that no longer apply to /repo's HEAD with a three-way merge in a scratch worktree; a patch is replaced
# only if the merge is clean and (for changes that have a demo) the demo still passes without and fails with the change and the
# suite still reports 335 passed.
set -u
cd "$(dirname "$0")/.."
for id in "$@"; do
  d=seeded/$id
  wt=$(mktemp -d /tmp/rbwt.XXXXXX); rmdir "$wt"
  git -C /repo worktree add --detach "$wt" HEAD -q || { echo "$id: no worktree"; continue; }
  if git -C "$wt" apply --check "$PWD/$d/patch.diff" 2>/dev/null; then
    echo "$id: applies"
    if [ -z "${REVALIDATE:-}" ]; then git -C /repo worktree remove --force "$wt"; continue; fi
    git -C "$wt" apply "$PWD/$d/patch.diff"   # REVALIDATE=1: run demonstration and suite again on the current HEAD
  else
    git -C "$wt" apply --3way "$PWD/$d/patch.diff" >/dev/null 2>&1
  fi
  if grep -rq '^<<<<<<<' "$wt/py7zr"; then
    # both sides added lines at the same place (the usual case after later fix commits): keep both, ours first, and let the
    # demonstration and the suite decide whether the result still is the seeded change
    if [ ! -f "$d/demo.py" ]; then echo "$id: CONFLICT (no demo to validate a union merge)"; git -C /repo worktree remove --force "$wt"; continue; fi
    /venv/bin/python - "$wt" <<'PY'
import re,sys,glob
for f in glob.glob(sys.argv[1]+"/py7zr/*.py"):
    t=open(f).read()
    if "<<<<<<<" in t:
        t=re.sub(r"<<<<<<< ours\n(.*?)=======\n(.*?)>>>>>>> theirs\n", lambda m: m.group(1)+m.group(2), t, flags=re.S)
        open(f,"w").write(t)
PY
    if grep -rq '^<<<<<<<\|^=======$\|^>>>>>>>' "$wt/py7zr" || ! /venv/bin/python -m py_compile "$wt"/py7zr/*.py 2>/dev/null; then
      echo "$id: CONFLICT"; git -C "$wt" reset -q --hard HEAD; git -C /repo worktree remove --force "$wt"; continue
    fi
    echo "$id: union-merged"
  fi
  git -C "$wt" diff HEAD -- py7zr > /tmp/rb_$id.diff
  git -C "$wt" reset -q --hard HEAD
  ok=1
  if [ -f "$d/demo.py" ]; then
    cp "$d/demo.py" "$wt/demo_rb.py"
    (cd "$wt" && timeout 300 /venv/bin/python demo_rb.py >/dev/null 2>&1); c=$?
    git -C "$wt" apply /tmp/rb_$id.diff
    (cd "$wt" && timeout 300 /venv/bin/python demo_rb.py >/dev/null 2>&1); m=$?
    suite=$(cd "$wt" && timeout 1500 /venv/bin/python -m pytest -q -p no:cacheprovider --timeout=900 -n 4 2>&1 | grep -E "passed|failed" | tail -1)
    if [ "$c" != 0 ] || [ "$m" = 0 ] || ! echo "$suite" | grep -q "335 passed" || echo "$suite" | grep -q failed; then ok=0; fi
    echo "$id: demo clean=$c changed=$m suite=[$suite]"
  fi
  if [ $ok = 1 ]; then cp /tmp/rb_$id.diff "$d/patch.diff"; echo "$id: REBASED"; else echo "$id: NOT-REBASED"; fi
  git -C /repo worktree remove --force "$wt"
done
