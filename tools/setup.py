#!/venv/bin/python
"""setup_cmd: make sure hypothesis is importable (offline wheelhouse), nothing else to build."""
import os
import subprocess
import sys

VERIF = os.path.dirname(os.path.dirname(os.path.abspath(__file__)))
deps = os.path.join(VERIF, ".deps")
try:
    import hypothesis  # noqa

    print("hypothesis", hypothesis.__version__, "already importable")
except ImportError:
    os.makedirs(deps, exist_ok=True)
    rc = subprocess.call([sys.executable, "-m", "pip", "install", "-q", "--no-index", "--find-links", "/opt/veriftools/wheels",
                          "--target", deps, "hypothesis"])
    if rc:
        sys.exit(rc)
# atheris is only needed by the thorough tier of C05 (coverage-guided campaign); absence is tolerated there
try:
    sys.path.append(deps)
    import atheris  # noqa

    sys.path.remove(deps)
except ImportError:
    os.makedirs(deps, exist_ok=True)
    subprocess.call([sys.executable, "-m", "pip", "install", "-q", "--no-index", "--find-links", "/opt/veriftools/wheels", "--target", deps, "atheris"])
for d in ("evidence", "replays"):
    os.makedirs(os.path.join(VERIF, d), exist_ok=True)
sys.path.insert(0, os.environ.get("VERIF_REPO", "/repo"))
import py7zr  # noqa

print("py7zr from", py7zr.__file__)
