#!/bin/bash
# quietness sweep: every check at several seeds on the unchanged tree
cd /verif
for s in ${SEEDS:-2 3 7 1234}; do
  for c in ${CHECKS:-C01 C02 C03 C04 C05 C06 C07 C08 C09 C10 C11 C12 C13 C14 C15 C16 C17 C18 C19 C20}; do
    out=$(VERIF_SEED=$s timeout 1800 /venv/bin/python run.py $c --tier quick 2>&1)
    rc=$?
    echo "seed=$s $c rc=$rc $(echo "$out" | tail -1 | cut -c1-160)"
    if [ $rc -ne 0 ]; then echo "$out" | grep -E "VIOLATION|signature|observed|HARNESS|Error" | head -12; fi
  done
done
