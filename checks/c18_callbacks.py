"""C18 - progress callbacks give a complete, well-ordered account."""
import io
import os
import shutil
import threading
import time

from hypothesis import strategies as st

from vlib import arch, patches
from vlib.runner import Check, HarnessError, Outcome
from vlib.sched import Scheduler

import py7zr
from py7zr.callbacks import ExtractCallback

from checks.c13_schedule import GateFactory, build


class Recorder(ExtractCallback):
    def __init__(self, block_at=None, slow=0.0):
        self.log = []
        self.lock = threading.Lock()
        self.block_at = block_at  # index of the handler invocation that parks until released
        self.release = threading.Event()
        self.slow = slow
        self.n = 0
        self.blocked = threading.Event()

    def _rec(self, method, *args):
        with self.lock:
            i = self.n
            self.n += 1
        if self.block_at is not None and i == self.block_at:
            self.blocked.set()
            self.release.wait(5)
        elif self.slow:
            time.sleep(self.slow)
        with self.lock:
            self.log.append((method, args, threading.current_thread().name, time.time()))

    def report_start_preparation(self):
        self._rec("pre")

    def report_start(self, processing_file_path, processing_bytes):
        self._rec("start", processing_file_path, processing_bytes)

    def report_update(self, decompressed_bytes):
        self._rec("update", decompressed_bytes)

    def report_end(self, processing_file_path, wrote_bytes):
        self._rec("end", processing_file_path, wrote_bytes)

    def report_warning(self, message):
        self._rec("warning", message)

    def report_postprocess(self):
        self._rec("post")


def with_extras(data, model, folder_of, extras, work):
    """append one more session holding stream-less members and links: a symlink to a file, a symlink to a directory, an empty
    file, a directory.  Returns fresh (bytes, model, folder_of); a link's content is its target text."""
    src = os.path.join(work, "src", "x")
    os.makedirs(src)
    model, folder_of = dict(model), dict(folder_of)
    nf = 1 + max(folder_of.values())
    added = {}
    for kind in extras:
        if kind == "link":  # py7zr only archives links whose target exists
            with open(os.path.join(src, "t.bin"), "wb") as f:
                f.write(b"link target " * 9)
            added["x/t.bin"] = b"link target " * 9
            os.symlink("t.bin", os.path.join(src, "l1"))
            added["x/l1"] = b"t.bin"
        elif kind == "linkdir":
            os.mkdir(os.path.join(src, "td"))
            added["x/td"] = b""
            os.symlink("../x/td", os.path.join(src, "l2"))
            added["x/l2"] = b"../x/td"
        elif kind == "empty":
            open(os.path.join(src, "e0"), "wb").close()
            added["x/e0"] = b""
        elif kind == "dir":
            os.mkdir(os.path.join(src, "d0"))
            added["x/d0"] = b""
    bio = io.BytesIO(data)
    with py7zr.SevenZipFile(bio, "a") as z:
        z.set_encoded_header_mode(False)
        z.writeall(src, arcname="x")
    with py7zr.SevenZipFile(io.BytesIO(bio.getvalue())) as z:
        names = z.getnames()
    model["x"] = b""
    for n in names:
        if n in added:
            model[n] = added[n]
            folder_of[n] = nf
    if set(names) != set(model):
        raise HarnessError("extras: unexpected member list %r" % (sorted(set(names) ^ set(model)),))
    model = {n: model[n] for n in names}
    return bio.getvalue(), model, folder_of


class LenRecorder(Recorder):
    """a recorder that has a length (the events seen so far): a perfectly good callback that is falsy when extraction starts"""

    def __len__(self):
        with self.lock:
            return len(self.log)


class C18(Check):
    property_id = "C18"
    level = "exploration"
    technique = "recording ExtractCallback with instantaneous, slow and gate-blocked handlers (released only after close() has been entered) under the harness scheduler for worker threads; event-log oracle computed from the member map, the target set and the folder partition"
    rule = ("archive = 1..4 folders x 1..3 members (C13 builder; chunk limit patched to 48..200 bytes so that members are decoded in several "
            "steps), optionally followed by an appended session with a symlink to a file, a symlink to a directory, an empty file and a directory "
            "x extractall / extract(T) with skipped members and skipped folders x output to a directory or a gated WriterFactory x opened "
            "by path (worker threads, scheduled at thread start and at every factory create/write; also with mp=True) or from a stream x preceded "
            "or not by an earlier extraction of the same session (with its own callback, or with none) and reset() x handlers instantaneous, "
            "sleeping 1 ms, or one invocation parked until 30 ms after close() was entered. Oracle: first event pre, last event post; every "
            "start(name) is followed later by exactly one end(name, n) with int(n) = the member's size, names are member names, every delivered "
            "member has such a pair; the update byte counts sum to the sizes of the delivered non-empty members (a link's size is the length of "
            "its target text); when close() returns the log "
            "is complete and unchanged 100 ms later. Non-trivial: >= 2 folders or a skipped member, and a blocking/slow handler or a "
            "schedule with a switch; distinct by (archive shape, targets, output, open mode, handler mode, schedule).")
    assumptions = ["handler delays total far below close()'s 1 s join timeout", "same scheduling granularity limits as C13"]
    budget_s = {"quick": 75, "thorough": 1500}
    sandbox_timeout = 120

    def setup(self, env):
        env.state["k"] = 0

    def strategy(self, env):
        spec = st.fixed_dictionaries({"folders": st.lists(st.lists(st.integers(0, 500), min_size=1, max_size=3), min_size=1, max_size=4),
                                      "chains": st.lists(st.integers(0, 5), min_size=1, max_size=4), "seed": st.integers(0, 99)})
        return st.fixed_dictionaries({"arch": spec, "targets": st.one_of(st.none(), st.lists(st.integers(0, 11), min_size=1, max_size=5, unique=True)),
                                      "out": st.sampled_from(["factory", "path"]), "open": st.sampled_from(["path", "path", "stream"]),
                                      "handler": st.sampled_from(["instant", "slow", "block", "block"]), "block_at": st.integers(0, 12),
                                      "chunk": st.sampled_from([48, 100, 200, None]), "sched": st.lists(st.integers(0, 3), max_size=30),
                                      "prior": st.sampled_from([None, None, None, "cb", "nocb"]), "mp": st.sampled_from([False, False, False, True]),
                                      "falsy": st.sampled_from([False, False, True]),
                                      "extras": st.one_of(st.just([]), st.lists(st.sampled_from(["link", "linkdir", "empty", "dir"]), max_size=4, unique=True))})

    def examples(self, env):
        return env.n(110, 3000)

    def enumerated(self, env):
        shapes = [{"folders": [[300, 120, 40, 10, 77]], "chains": [1], "seed": 1}, {"folders": [[200, 90], [150], [60, 60]], "chains": [0, 1, 2], "seed": 2}]
        i = 0
        for sp in shapes:
            n = sum(len(f) for f in sp["folders"])
            for targets in [None, [1], [0, 2], [n - 1], [1, n - 1]]:
                for out in ("factory", "path"):
                    for handler in ("instant", "block"):
                        i += 1
                        if env.mine(i):
                            yield {"arch": sp, "targets": targets, "out": out, "open": "path" if i % 3 else "stream", "handler": handler, "block_at": i % 7,
                                   "chunk": 64, "sched": [i % 3, 1, 0, 2, 1], "extras": [[], ["link", "empty"], ["linkdir", "dir", "link"], ["empty", "dir"]][i % 4],
                                   "prior": [None, "cb", None, "nocb", None][i % 5], "mp": i % 7 == 3, "falsy": i % 4 == 1}

    def execute(self, case, env):
        out = Outcome()
        data, model, folder_of, ranges = build(case["arch"])
        env.state["k"] += 1
        work = env.tmpdir("c18-")  # unique: a replacement sandbox child must not collide with a killed one
        extras = list(case.get("extras") or [])
        try:
            if extras:
                data, model, folder_of = with_extras(data, model, folder_of, extras, work)
        except BaseException:
            shutil.rmtree(work, ignore_errors=True)
            raise
        names = list(model)
        T = None
        if case["targets"] is not None:
            T = sorted({names[i % len(names)] for i in case["targets"]})
        delivered = names if T is None else T
        apath = os.path.join(work, "a.7z")
        with open(apath, "wb") as f:
            f.write(data)
        nf = len(ranges) + (1 if any(k in extras for k in ("link", "linkdir")) else 0)
        skipped = T is not None and len(T) < len(names)
        out.descriptor = (repr(case["arch"]), tuple(T) if T else None, case["out"], case["open"], case["handler"], case["block_at"], case["chunk"], tuple(case["sched"]), tuple(extras))
        out.label(*["extra:" + k for k in extras])
        out.label("folders=%d" % nf, "out:" + case["out"], "open:" + case["open"], "handler:" + case["handler"], "targets" if T else "all")
        out.nontrivial = (nf >= 2 or skipped) and (case["handler"] != "instant" or (case["open"] == "path" and nf >= 2))
        out.sample = {"arch": case["arch"], "targets": T, "out": case["out"], "open": case["open"], "handler": case["handler"], "chunk": case["chunk"], "extras": extras}
        sig = {"out": case["out"], "open": case["open"], "handler": case["handler"], "targets": T is not None, "multi": nf >= 2, "extras": bool(extras)}
        if case.get("prior"):
            sig["prior"] = case["prior"]
            out.label("prior:" + case["prior"])
        if case.get("mp") and case["open"] == "path":
            sig["mp"] = True
            out.label("mp")
        cb = (LenRecorder if case.get("falsy") else Recorder)(block_at=case["block_at"] if case["handler"] == "block" else None,
                                                               slow=0.001 if case["handler"] == "slow" else 0.0)
        if case.get("falsy"):
            out.label("callback:falsy")
        import py7zr.py7zr as pp

        sched = None
        orig_thread = getattr(pp, "Thread", None)
        try:
            with patches.memory_limit(case["chunk"]):
                threaded = case["open"] == "path" and nf >= 2
                fac = None
                if case["out"] == "factory":
                    sched = Scheduler(case["sched"], key_of=lambda label: label[1] if label[0] == "start" else "f%s" % folder_of.get(label[1], "?"))
                    fac = GateFactory(sched)
                    counter = {"n": 0}
                    s_ref = sched

                    class GatedThread(threading.Thread):
                        def __init__(self, *a, **kw):
                            super().__init__(*a, **kw)
                            tgt = kw.get("target")
                            self._is_reporter = getattr(tgt, "__name__", "") == "reporter"
                            self._idx = counter["n"]
                            if not self._is_reporter:
                                counter["n"] += 1

                        def run(self):
                            if self._is_reporter:
                                s_ref.ignore_current_thread()
                            else:
                                s_ref.point(("start", "w%02d" % self._idx))
                            super().run()

                    if orig_thread is not None and threaded:
                        pp.Thread = GatedThread
                src = apath if case["open"] == "path" else io.BytesIO(data)
                z = py7zr.SevenZipFile(src, "r", **({"mp": True} if (case.get("mp") and case["open"] == "path") else {}))
                raised = None
                # an earlier extraction in the same session, with a callback of its own or with none, then reset()
                cb0 = None
                prior = case.get("prior")
                if prior in ("cb", "nocb"):
                    try:
                        if prior == "cb":
                            cb0 = Recorder()
                            z.extractall(factory=py7zr.io.NullIOFactory(), callback=cb0)
                        else:
                            z.extractall(factory=py7zr.io.NullIOFactory())
                        z.reset()
                    except Exception as e:
                        cls, frame = arch.exc_sig(e)
                        out.violate(dict(sig, kind="prior-extraction-raises", exc=cls, frame=frame), observed=repr(e)[:200], expected="first extraction succeeds")
                        z.close()
                        return out
                    if cb0 is not None:
                        time.sleep(0.05)
                        with cb0.lock:
                            n0 = len(cb0.log)
                if sched is not None and threaded:
                    sched.start()
                try:
                    try:
                        kw = {"factory": fac} if fac is not None else {}
                        dest = os.path.join(work, "out")
                        if T is None:
                            if fac is not None:
                                z.extractall(callback=cb, **kw)
                            else:
                                z.extractall(dest, callback=cb)
                        else:
                            if fac is not None:
                                z.extract(targets=T, callback=cb, **kw)
                            else:
                                z.extract(dest, targets=T, callback=cb)
                    except Exception as e:
                        raised = e
                finally:
                    if sched is not None and threaded:
                        sched.finish()
                if sched is not None and sched.error:
                    raise HarnessError(sched.error)
                if raised is not None:
                    cb.release.set()
                    cls, frame = arch.exc_sig(raised)
                    out.violate(dict(sig, kind="extraction-raises", exc=cls, frame=frame), observed=repr(raised)[:200], expected="extraction with callback succeeds")
                    try:
                        z.close()
                    except Exception:
                        pass
                    return out
                # close(): the blocked handler is released only after close() has been entered
                if case["handler"] == "block":
                    threading.Timer(0.03, cb.release.set).start()
                t0 = time.time()
                try:
                    z.close()
                except Exception as e:
                    cb.release.set()
                    out.violate(dict(sig, kind="close-raises", exc=type(e).__name__), observed=repr(e)[:200], expected="close() waits for the reporter")
                    return out
                with cb.lock:
                    n1 = len(cb.log)
                    log = list(cb.log)
                time.sleep(0.1)
                with cb.lock:
                    n2 = len(cb.log)
                if n2 != n1:
                    out.violate(dict(sig, kind="events-after-close"), observed={"at_close": n1, "later": n2}, expected="all events delivered before close() returns")
                self._judge(out, sig, log, model, delivered, names, folder_of)
                out.count("events", len(log))
                if cb0 is not None:
                    with cb0.lock:
                        log0 = list(cb0.log)
                    # (the first reporter may still have been delivering when the second extraction began - that is allowed until
                    # close(); what is not allowed is that the second extraction's events end up here: the complete log of the
                    # first callback must be exactly one well-formed account of one extraction)
                    self._judge(out, dict(sig, which="prior"), log0, model, names, names, folder_of)
        finally:
            cb.release.set()
            if orig_thread is not None:
                pp.Thread = orig_thread
            shutil.rmtree(work, ignore_errors=True)
        return out

    def _judge(self, out, sig, log, model, delivered, names, folder_of):
        kinds = [e[0] for e in log]
        if not kinds or kinds[0] != "pre":
            out.violate(dict(sig, kind="pre-not-first"), observed=kinds[:4], expected="pre first")
        if not kinds or kinds[-1] != "post":
            out.violate(dict(sig, kind="post-not-last"), observed=kinds[-4:], expected="post last")
        if kinds.count("pre") != 1 or kinds.count("post") != 1:
            out.violate(dict(sig, kind="pre-post-count"), observed={"pre": kinds.count("pre"), "post": kinds.count("post")}, expected="one each")
        starts, ends = {}, {}
        for i, (k, a, th, t) in enumerate(log):
            if k == "start":
                starts.setdefault(a[0], []).append(i)
            elif k == "end":
                ends.setdefault(a[0], []).append((i, a[1]))
        for n in set(starts) | set(ends):
            if n not in model:
                out.violate(dict(sig, kind="event-for-unknown-member"), observed=n, expected="member names")
                continue
            s, e = starts.get(n, []), ends.get(n, [])
            if len(s) != 1 or len(e) != 1:
                out.violate(dict(sig, kind="start-end-not-paired", starts=len(s), ends=len(e), delivered=n in delivered),
                            observed={"name": n, "starts": len(s), "ends": len(e)}, expected="exactly one start then one end")
                continue
            if e[0][0] < s[0]:
                out.violate(dict(sig, kind="end-before-start"), observed=n, expected="start first")
            try:
                sz = int(e[0][1])
            except (TypeError, ValueError):
                sz = None
            if sz != len(model[n]):
                out.violate(dict(sig, kind="end-size-wrong", delivered=n in delivered), observed={"name": n, "got": e[0][1]}, expected=len(model[n]))
        for n in delivered:
            if n not in starts or n not in ends:
                out.violate(dict(sig, kind="delivered-member-without-events"), observed=n, expected="start/end pair")
        total = 0
        for k, a, th, t in log:
            if k == "update":
                try:
                    total += int(a[0])
                except (TypeError, ValueError):
                    out.violate(dict(sig, kind="update-not-a-number"), observed=a[0], expected="byte count")
        want = sum(len(model[n]) for n in delivered)
        if total != want:
            out.violate(dict(sig, kind="update-sum-wrong", sign="less" if total < want else "more"), observed=total, expected=want)


CHECK = C18()
