"""C16 - member names are kept relative on write.

Exhaustive enumeration of names over the component alphabet, judged through the public
writestr/writef API and compared with an independent lexical definition; a fuzzing
dictionary of path-like literals taken from py7zr/helpers.py at run time; random Unicode
names; write()/writeall() over a scratch tree addressed in every path form."""
import io
import itertools
import os
import pathlib
import re

from hypothesis import strategies as st

from gen import basic as G
from vlib.runner import Check, Outcome

import py7zr

COPY = [{"id": G.F_COPY}]
ALPHA = ["a", "b", "..", ".", "", "c:"]
PREFIXES = ["", "/", "//"]
SUFFIXES = ["", "/"]


def verdict(name: str):
    """independent definition: (accept?, resolved component tuple)"""
    if name.startswith("/"):
        return False, None
    depth = 0
    stack = []
    for comp in name.split("/"):
        if comp in ("", "."):
            continue
        if comp == "..":
            depth -= 1
            if depth < 0:
                return False, None
            stack.pop()
        else:
            depth += 1
            stack.append(comp)
    return True, tuple(stack)


def resolve_stored(name: str):
    ok, st_ = verdict(name)
    return st_ if ok else None


def is_absolute_name(name: str) -> bool:
    return name.startswith("/") or name.startswith("\\") or re.match(r"^[A-Za-z]:[/\\]", name) is not None


def dictionary_components():
    """path-like string literals of helpers.py -> extra alphabet (run-time fuzzing dictionary)"""
    import py7zr.helpers as h

    src = open(h.__file__, encoding="utf-8").read()
    comps = []
    for lit in re.findall(r"[\"']([^\"'\n]*/[^\"'\n]*)[\"']", src):
        for c in lit.split("/"):
            c = c.strip()
            if c and c not in comps and re.fullmatch(r"[A-Za-z0-9_.:-]{1,40}", c) and c not in (".", ".."):
                comps.append(c)
    return comps[:12]


def dictionary_tails():
    """the last two components of every path literal of helpers.py (the internal probe directory): climbing out and re-entering
    a directory named like the probe is the classic way a lexical containment test is fooled"""
    import py7zr.helpers as h

    src = open(h.__file__, encoding="utf-8").read()
    tails = []
    lits = sorted(set(re.findall(r"[\"']([^\"'\n]*/[^\"'\n]*)[\"']", src)), key=lambda lit: (-lit.count("/"), lit))
    for lit in lits:
        comps = [c.strip() for c in lit.split("/") if c.strip() and re.fullmatch(r"[A-Za-z0-9_.:-]{1,40}", c.strip()) and c.strip() not in (".", "..")]
        if len(comps) >= 2 and tuple(comps[-2:]) not in tails:
            tails.append(tuple(comps[-2:]))
    return tails[:4]


def make_name(prefix, comps, suffix):
    return prefix + "/".join(comps) + suffix


def chunks(it, n):
    buf = []
    for x in it:
        buf.append(x)
        if len(buf) == n:
            yield buf
            buf = []
    if buf:
        yield buf


class C16(Check):
    property_id = "C16"
    level = "exploration"
    technique = "exhaustive enumeration of names (<=6 components over the alphabet) through writestr/writef against an independent lexical resolver; run-time fuzzing dictionary; Hypothesis Unicode names; write/writeall path forms"
    rule = ("every name prefix+'/'.join(components)+suffix with components in {a,b,..,.,'',c:}, 1..6 components, prefix in "
            "{'','/','//'}, suffix in {'','/'} is passed to writestr/writef of a fresh Copy-filter archive (batches of 400) between a "
            "'before' and an 'after' member; ValueError expected iff the independent resolver rejects; after close the listing must be "
            "exactly before + accepted names (lexically equivalent, non-absolute) + after. Plus names <=4 components over "
            "{a,..}+dictionary of path literals from helpers.py, names of 2..6 components over {..,a}+the last two components of each "
            "such literal (the internal probe directory), Hypothesis names, and write()/writeall() of a scratch tree in 8 path "
            "forms, write() of sources that are only separators or ancestors of the scratch tree ('/', '//', '/tmp/'). Non-trivial: name contains '..' or an absolute/drive prefix; distinct by name.")
    assumptions = ["independent verdict: split on '/', absolute iff leading '/', reject iff depth goes negative",
                   "POSIX host: 'c:' is an ordinary component for writestr/writef; write() strips it as a drive prefix"]
    budget_s = {"quick": 60, "thorough": 900}

    def exhaustive(self, env):
        return True

    def enumerated(self, env):
        maxk = 6
        idx = 0

        def names():
            for k in range(1, maxk + 1):
                for comps in itertools.product(ALPHA, repeat=k):
                    for p in PREFIXES:
                        for s in SUFFIXES:
                            yield make_name(p, comps, s)

        for batch in chunks(names(), 400):
            idx += 1
            if env.mine(idx):
                yield {"k": "names", "names": batch, "src": "alphabet"}
        dcomps = dictionary_components()
        alpha2 = ["a", ".."] + dcomps
        maxd = 3 if env.quick else 4

        def dnames():
            for k in range(1, maxd + 1):
                for comps in itertools.product(alpha2, repeat=k):
                    if ".." in comps and any(c in dcomps for c in comps):
                        yield "/".join(comps)

        for batch in chunks(dnames(), 400):
            idx += 1
            if env.mine(idx):
                yield {"k": "names", "names": batch, "src": "dictionary"}
        def tnames():
            for tail in dictionary_tails():
                alpha3 = ["..", "a"] + list(tail)
                for k in range(2, 7):
                    for comps in itertools.product(alpha3, repeat=k):
                        if ".." in comps and any(c in tail for c in comps):
                            yield "/".join(comps)

        for batch in chunks(tnames(), 400):
            idx += 1
            if env.mine(idx):
                yield {"k": "names", "names": batch, "src": "probe-tail"}
        # sources that are nothing but separators, or ancestors of the scratch tree: write() of a directory stores one entry
        for src in ("/", "//", "///", "P:/", "/tmp", "/tmp/", "//tmp", "P:/tmp/"):
            idx += 1
            if env.mine(idx):
                yield {"k": "rootpath", "src": src}
        # relative sources whose first component looks like a drive: the prefix is removed like any other drive prefix
        for src in ("c:/sub/x", "D:y", "c:", "P:c:/sub/x"):
            idx += 1
            if env.mine(idx):
                yield {"k": "drivelike", "src": src}
        for form in range(8):
            for entry in ("write", "writeall"):
                idx += 1
                if env.mine(idx):
                    yield {"k": "tree", "form": form, "entry": entry}

    def strategy(self, env):
        comp = st.one_of(G.component(12), st.sampled_from(["..", ".", "", "..", "a", "c:", "..."]))
        name = st.builds(lambda p, cs, s: p + "/".join(cs) + s, st.sampled_from(["", "", "", "/", "//"]),
                         st.lists(comp, min_size=1, max_size=7), st.sampled_from(["", "", "/"]))
        return st.lists(name, min_size=1, max_size=20).map(lambda ns: {"k": "names", "names": ns, "src": "hypothesis"})

    def examples(self, env):
        return env.n(150, 5000)

    def execute(self, case, env):
        out = Outcome()
        if case["k"] == "names":
            self._names(case, out)
        elif case["k"] == "rootpath":
            self._rootpath(case, out, env)
        elif case["k"] == "drivelike":
            self._drivelike(case, out, env)
        else:
            self._tree(case, out, env)
        return out

    def _names(self, case, out):
        names = [n for n in case["names"] if "\x00" not in n]
        out.label("src:" + case["src"])
        out.nontrivial = any(".." in n.split("/") or n.startswith("/") for n in names)
        out.descriptor = ("names", tuple(names))
        out.sample = {"src": case["src"], "first": names[:6], "n": len(names)}
        bio = io.BytesIO()
        expected = ["before"]
        z = py7zr.SevenZipFile(bio, "w", filters=COPY)
        z.writestr(b"x", "before")
        for i, n in enumerate(names):
            want_ok, want_stack = verdict(n)
            # the verdict on a name must not depend on how the payload is handed over
            api = ["writestr", "writef", "writestr-bytearray", "writef-buffered", "writestr-str", "writef", "writestr-memoryview", "writef"][i % 8]
            try:
                if api == "writestr":
                    z.writestr(b"", n)
                elif api == "writestr-bytearray":
                    z.writestr(bytearray(b""), n)
                elif api == "writestr-memoryview":
                    z.writestr(memoryview(b""), n)
                elif api == "writestr-str":
                    z.writestr("", n)
                elif api == "writef-buffered":
                    z.writef(io.BufferedReader(io.BytesIO(b"")), n)
                else:
                    z.writef(io.BytesIO(b""), n)
                got = "accepted"
            except ValueError:
                got = "ValueError"
            except Exception as e:  # any other exception is not the documented rejection
                got = type(e).__name__
            out.count("names")
            if ".." in n.split("/") or n.startswith("/"):
                out.count("names_nontrivial")
            if want_ok and got == "accepted":
                expected.append(want_stack)
            elif want_ok:
                out.violate({"kind": "inside-name-rejected", "api": api, "how": got, "shape": shape(n)}, observed={"name": n, "got": got},
                            expected="accepted (stays inside the root)")
            elif got == "accepted":
                expected.append(None)  # whatever it stored
                out.violate({"kind": "escaping-name-accepted", "api": api, "shape": shape(n)}, observed={"name": n},
                            expected="ValueError (absolute or climbs above the root)")
            elif got != "ValueError":
                out.violate({"kind": "rejected-with-wrong-exception", "api": api, "exc": got}, observed={"name": n, "got": got},
                            expected="ValueError")
        z.writestr(b"y", "after")
        expected.append("after")
        z.close()
        bio.seek(0)
        with py7zr.SevenZipFile(bio, "r") as r:
            listed = r.getnames()
        if len(listed) != len(expected):
            out.violate({"kind": "archive-changed-by-rejected-call-or-lost-member"},
                        observed={"listed": len(listed), "tail": listed[-3:]}, expected={"members": len(expected)})
            return
        for got, want in zip(listed, expected):
            if got.startswith("/"):
                out.violate({"kind": "absolute-name-stored"}, observed=got, expected="relative name")
            if want in ("before", "after"):
                if got != want:
                    out.violate({"kind": "neighbour-member-disturbed"}, observed=got, expected=want)
            elif want is not None and resolve_stored(got) != want:
                out.violate({"kind": "stored-name-not-equivalent"}, observed=got, expected="/".join(want))

    def _drivelike(self, case, out, env):
        import shutil

        src = case["src"]
        out.nontrivial = True
        out.label("tree:drivelike")
        root = env.tmpdir("t16")
        cwd = os.getcwd()
        try:
            os.chdir(root)
            rel = src[2:] if src.startswith("P:") else src
            os.makedirs(os.path.dirname(rel) or ".", exist_ok=True)
            if rel.endswith(":"):
                os.makedirs(rel, exist_ok=True)
            else:
                with open(rel, "wb") as f:
                    f.write(b"payload")
            arg = pathlib.Path(rel) if src.startswith("P:") else rel
            bio = io.BytesIO()
            try:
                with py7zr.SevenZipFile(bio, "w", filters=COPY) as z:
                    z.writestr(b"before", "before.txt")
                    try:
                        z.write(arg)
                    except (ValueError, OSError):
                        pass  # a clean refusal stores nothing
            except Exception as e:
                out.violate({"kind": "tree-write-raises", "entry": "write", "form": "drivelike", "exc": type(e).__name__}, observed={"src": src, "exc": repr(e)[:200]},
                            expected="relative name stored or clean refusal")
                return
            bio.seek(0)
            with py7zr.SevenZipFile(bio, "r") as r:
                listed = r.getnames()
            out.sample = {"src": src, "listed": listed}
            for n in listed:
                if is_absolute_name(n) or re.match(r"^[A-Za-z]:", n):
                    out.violate({"kind": "drive-prefix-stored", "entry": "write"}, observed={"src": src, "stored": n}, expected="name without drive prefix")
        finally:
            os.chdir(cwd)
            shutil.rmtree(root, ignore_errors=True)

    def _rootpath(self, case, out, env):
        src = case["src"]
        out.nontrivial = True
        out.label("tree:rootpath")
        arg = pathlib.Path(src[2:]) if src.startswith("P:") else src
        bio = io.BytesIO()
        try:
            with py7zr.SevenZipFile(bio, "w", filters=COPY) as z:
                z.writestr(b"before", "before.txt")
                try:
                    z.write(arg)
                    refused = None
                except (ValueError, OSError) as e:  # a clean refusal stores nothing absolute either
                    refused = type(e).__name__
                z.writestr(b"after", "after.txt")
        except Exception as e:
            out.violate({"kind": "tree-write-raises", "entry": "write", "form": "rootpath", "exc": type(e).__name__}, observed={"src": src, "exc": repr(e)[:200]},
                        expected="relative name stored or clean refusal")
            return
        bio.seek(0)
        with py7zr.SevenZipFile(bio, "r") as r:
            listed = r.getnames()
        out.sample = {"src": src, "listed": listed, "refused": refused}
        for n in listed:
            if is_absolute_name(n) or n == "":
                out.violate({"kind": "absolute-name-stored", "entry": "write", "form": "rootpath"}, observed={"src": src, "stored": n}, expected="relative name")
        if listed[:1] != ["before.txt"] or listed[-1:] != ["after.txt"] or len(listed) != (2 if refused else 3):
            out.violate({"kind": "tree-member-count", "entry": "write", "form": "rootpath"}, observed=listed, expected="before, the directory entry, after")

    def _tree(self, case, out, env):
        form, entry = case["form"], case["entry"]
        out.nontrivial = form in (0, 1, 2, 6, 7)
        out.label("tree:form%d" % form, "tree:" + entry)
        root = env.tmpdir("t16")
        base = os.path.join(root, "a")
        os.makedirs(os.path.join(base, "b", "c"))
        files = ["a/f.txt", "a/b/g.bin", "a/b/c/h"]
        for f in files:
            with open(os.path.join(root, f), "wb") as fh:
                fh.write(f.encode())
        cwd = os.getcwd()
        os.chdir(root)
        try:
            def address(rel):
                ab = os.path.join(root, rel)
                return [ab, "/" + ab, pathlib.Path(ab), rel, "./" + rel, rel.replace("/", "//"), pathlib.Path(rel),
                        ab.replace("/", "//")][form]

            bio = io.BytesIO()
            try:
                with py7zr.SevenZipFile(bio, "w", filters=COPY) as z:
                    if entry == "write":
                        for f in files:
                            z.write(address(f))
                    else:
                        z.writeall(address("a"))
            except Exception as e:
                out.violate({"kind": "tree-write-raises", "entry": entry, "form": form, "exc": type(e).__name__},
                            observed={"addressed": str(address("a/f.txt")), "exc": repr(e)[:200]},
                            expected="source path stored as a relative name")
                return
            bio.seek(0)
            with py7zr.SevenZipFile(bio, "r") as r:
                listed = r.getnames()
            out.sample = {"form": form, "entry": entry, "addressed": str(address("a/f.txt")), "listed": listed[:4]}
            want = len(files) + (3 if entry == "writeall" else 0)
            if len(listed) != want:
                out.violate({"kind": "tree-member-count", "entry": entry}, observed=listed, expected=want)
            for n in listed:
                if is_absolute_name(n):
                    out.violate({"kind": "absolute-name-stored", "entry": entry, "form": form}, observed=n, expected="relative name")
                if not n.endswith(("f.txt", "g.bin", "h", "a", "b", "c")):
                    out.violate({"kind": "tree-name-mangled", "entry": entry, "form": form}, observed=n, expected="suffix of the source path")
        finally:
            os.chdir(cwd)
            import shutil

            shutil.rmtree(root, ignore_errors=True)


def shape(n: str) -> str:
    """coarse class of a name, used to bucket failures by root cause rather than by input"""
    parts = n.split("/")
    s = []
    if n.startswith("//"):
        s.append("lead2")
    elif n.startswith("/"):
        s.append("lead1")
    if ".." in parts:
        s.append("dotdot-first" if [p for p in parts if p not in ("", ".")][:1] == [".."] else "dotdot-later")
    if any(p not in ALPHA for p in parts):
        s.append("other-comp")
    return "+".join(s) or "plain"


CHECK = C16()
