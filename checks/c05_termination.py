"""C05 - any input terminates in bounded time and memory; the interpreter survives.

Byte-level and structure-aware mutation (token tree of the reference writer, CRCs
re-sealed) x read-call sequences, executed in a sandbox child with a wall-clock watchdog
and peak-RSS measurement."""
import glob
import io
import os
import shutil
import zlib

from hypothesis import strategies as st

from gen import seeds as S
from ref7z import writer as RW
from vlib import sandbox
from vlib.runner import Check, Outcome, REPO

import py7zr
from py7zr.io import NullIOFactory

EXT = [0, 1, 2, 3, 7, 8, 15, 16, 127, 128, 255, 256, 0x3FFF, 0x4000, 0xFFFF, 0x10000, (1 << 21) - 1, 1 << 21, (1 << 28) - 1, 1 << 28,
       (1 << 31) - 1, 1 << 31, (1 << 32) - 1, 1 << 32, (1 << 35), (1 << 42) - 1, 1 << 49, (1 << 56) - 1, 1 << 56, (1 << 63) - 1, 1 << 63,
       (1 << 64) - 1]
CALLS = ["getnames", "list", "archiveinfo", "needs_password", "test", "testzip", "extractall_null", "extractall_limited", "extractall_path", "extract_first",
         "extract_last", "reset", "getinfo"]
DECODING = {"testzip", "extractall_null", "extractall_limited", "extractall_path", "extract_first", "extract_last"}
MEM_LIMIT_KB = 512 * 1024
COUNT_NAMES = {"numfiles", "numpackstreams", "numfolders", "numunpackstream", "numcoders", "packsize", "unpacksize", "subsize", "packpos"}
COUNT_VALUES = [EXT.index(x) for x in (1 << 21, 1 << 28, (1 << 32) - 1, 1 << 49, (1 << 63) - 1)]

_cache = {}


def seed_names():
    return sorted(S.ref_specs()) + sorted(S.PY_SEEDS)


def fixture_names():
    out = []
    for p in sorted(glob.glob(os.path.join(REPO, "tests/data/*.7z"))):
        try:
            if os.path.getsize(p) <= 65536:
                out.append(os.path.basename(p))
        except OSError:
            pass
    return out


def get_built(name):
    if name not in _cache:
        b, opts, pw = S.build_ref(name)
        _cache[name] = (b, opts, pw)
    return _cache[name]


def get_bytes(name):
    key = "bytes:" + name
    if key not in _cache:
        if name in S.PY_SEEDS:
            data, _, pw = S.build_py(name)
        elif name.endswith(".7z"):
            with open(os.path.join(REPO, "tests/data", name), "rb") as f:
                data = f.read()
            pw = "secret" if name.startswith("encrypted") else ("hello" if name.startswith("filename_enc") else None)
        else:
            b, opts, pw = get_built(name)
            data = b.data
        _cache[key] = (data, pw)
    return _cache[key]


def crc(b):
    return zlib.crc32(b) & 0xFFFFFFFF


def _expensive(data):
    """legitimately expensive declarations are outside the oracle (see assumptions)"""
    import struct

    from ref7z import coders as RC
    from ref7z import reader as RR

    try:
        P = RR.parse(data, password="pw", decode=False)
    except Exception:
        return False
    for c in [c for f in P.folders for c in f["coders"]] + list(P.header_coders or []):
        props = c.get("props") or b""
        try:
            if c["m"] == RC.M_AES and props and 20 <= (props[0] & 0x3F) <= 24:
                return True
            if c["m"] == RC.M_LZMA2 and props and props[0] <= 40 and RC.lzma2_dict_from_code(props[0]) > (64 << 20):
                return True
            if c["m"] in (RC.M_LZMA, RC.M_PPMD) and len(props) >= 5 and struct.unpack("<L", props[1:5])[0] > (64 << 20):
                return True
        except Exception:
            pass
    return False


def header_crcs_ok(data):
    import struct

    if len(data) < 32 or data[:6] != b"7z\xbc\xaf\x27\x1c":
        return False
    if crc(data[12:32]) != struct.unpack("<L", data[8:12])[0]:
        return False
    off, size, c = struct.unpack("<QQL", data[12:32])
    if 32 + off + size > len(data):
        return False
    return crc(data[32 + off:32 + off + size]) == c


SAFE_AES_CYCLES = list(range(0, 9)) + [12, 16, 0x3F, 25, 30, 62]  # 17..24 cost 0.1 s..seconds of honest key derivation


def mutate_raw(node, v, name):
    """variants of a raw byte field; coder properties keep legitimately expensive declarations out"""
    b = node.val
    k = v % 8
    if node.name == "props":
        if len(b) >= 2 and (b[0] & 0xC0):  # 7zAES: keep cycles out of the 2^20..2^24 range (seconds of honest work)
            cyc = SAFE_AES_CYCLES[v % len(SAFE_AES_CYCLES)]
            choices = [bytes([(b[0] & 0xC0) | cyc]) + b[1:], b[:1], b[:-1], b + b"\x00", bytes([b[0]]) + bytes([b[1] ^ 0x11]) + b[2:], b""]
            return choices[(v // 32) % len(choices)]
        if len(b) == 1:  # LZMA2 dictionary code / Delta distance: <= 64 MiB or invalid
            return [b"\x00", b"\x01", b"\x18", b"\x1c", b"\x29", b"\xff", b"", b + b"\x00"][k]
        if len(b) == 5:  # LZMA / PPMd: order/props byte + LE32 memory size (kept <= 64 MiB)
            return [b"\x00" + b[1:], b"\xff" + b[1:], b"\xe0" + b[1:], b[:1] + (1 << 26).to_bytes(4, "little"), b[:1] + bytes(4), b[:4], b + b"\x00",
                    bytes([b[0] ^ 1]) + b[1:]][k]
        return [b[:-1], b + b"\x00", bytes(len(b)), b"\xff" * len(b), b"", b[::-1], b[:1], b + b][k]
    if k == 0:
        return bytes(len(b))
    if k == 1:
        return b"\xff" * len(b)
    if k == 2:
        return b[:-1]
    if k == 3:
        return b + b"\x00"
    if k == 4:
        return b[: len(b) // 2]
    if k == 5:
        return b + b
    if k == 6:
        return b""
    return bytes([(x ^ 0x80) for x in b])


def apply_ops(tree, ops):
    applied = []
    for op in ops:
        flat = RW.flatten(tree)
        if len(flat) < 2:
            break
        node, parent, idx = flat[1 + op["t"] % (len(flat) - 1)]
        kind = op["op"]
        if kind == "set":
            if node.kind in ("num", "u32", "u64"):
                node.val = EXT[op["v"] % len(EXT)]
                node.width = None
            elif node.kind == "byte":
                node.val = [0, 1, 0x17, 0xFF, 0x19, 0x0E, 0x09, (node.val + 1) & 0xFF][op["v"] % 8]
            elif node.kind == "raw":
                node.val = mutate_raw(node, op["v"], node.name)
            elif node.kind == "sized":
                node.forced_size = EXT[op["v"] % len(EXT)]
            else:
                kind = "drop"
        if kind == "drop" and parent is not None:
            del parent.val[idx]
        elif kind == "dup" and parent is not None:
            parent.val.insert(idx, node)
        elif kind == "swap" and parent is not None and idx + 1 < len(parent.val):
            parent.val[idx], parent.val[idx + 1] = parent.val[idx + 1], parent.val[idx]
        applied.append("%s:%s:%s" % (kind, node.kind, node.name))
    return applied


def build_input(case):
    """-> (bytes, password, description list)"""
    kind = case["kind"]
    if kind == "tree":
        import copy

        b, opts, pw = get_built(case["seed"])
        b2 = copy.deepcopy(b)
        which = case.get("tree", "inner")
        if which == "outer" and b2.outer is not None:
            applied = apply_ops(b2.outer, case["ops"])
            RW.reseal_outer(b2, opts)
        else:
            applied = apply_ops(b2.inner, case["ops"])
            o = dict(opts)
            if case.get("hdr"):
                o["header"] = case["hdr"]
            RW.reassemble(b2, o, pw or "pw")
            if o.get("header") == "aes" and pw is None:
                pw = "pw"
        return b2.data, pw, applied
    if kind == "special":
        return build_special(case), None, [case["what"]]
    if kind == "raw":
        return bytes.fromhex(case["hex"]), ("pw" if case.get("pw") != "none" else None), ["raw"]
    data, pw = get_bytes(case["seed"])
    data = bytearray(data)
    applied = []
    for op in case["ops"]:
        n = len(data)
        if n == 0:
            break
        k = op["op"]
        if k == "trunc":
            del data[op["t"] % (n + 1):]
        elif k == "flip":
            bit = op["t"] % (n * 8)
            data[bit >> 3] ^= 1 << (bit & 7)
        elif k == "byte":
            data[op["t"] % n] = op["v"] & 0xFF
        elif k == "splice":
            other, _ = get_bytes(case.get("seed2", case["seed"]))
            p = op["t"] % n
            q = op["v"] % max(1, len(other))
            data[p:] = other[q:]
        elif k == "insert":
            p = op["t"] % n
            data[p:p] = bytes([op["v"] & 0xFF]) * (1 + op["v"] % 4)
        elif k == "delete":
            p = op["t"] % n
            del data[p:p + 1 + op["v"] % 4]
        applied.append(k)
    return bytes(data), pw, applied


def build_special(case):
    """hand-shaped hostile layouts: encoded headers that decode to encoded headers (nesting, self reference)"""
    from ref7z import coders as RC

    b, opts, pw = get_built(case.get("seed", "copy"))
    inner = RW.serialize(b.inner)
    body = b"".join(f["packed"] for f in b.folders_enc)
    what = case["what"]
    coder = {"copy": [{"m": RC.M_COPY}], "lzma": [{"m": RC.M_LZMA, "dict": 65536}]}[case.get("coder", "copy")]

    def wrap(payload, body):
        """append `payload` as a packed header stream to body and return (body', encoded-header record pointing at it)"""
        hc = [dict(c) for c in coder]
        packed, sizes = RC.encode_chain(hc, payload)
        fe = [{"coders": hc, "packed": packed, "unpack_sizes": sizes, "subs": [(len(payload), RW.crc(payload))], "fcrc": case.get("crc", True),
               "folder_crc_value": RW.crc(payload), "scrc": [False]}]
        rec = RW.serialize(RW.build_streams(fe, len(body), False, True, "auto", True, "omit", main_id=0x17))
        return body + packed, rec

    if what.startswith("manypack") or what.startswith("manybind"):
        # a few hundred bytes (the header compresses to nothing) that declare very many pack streams of size 0 / one coder with very many
        # streams and bind pairs: the work must stay proportional to the declared counts, not to their square
        from ref7z.codec import enc_number as enc_num

        n = int(what[8:])
        if what.startswith("manypack"):
            hdr = b"\x01\x04\x06" + enc_num(0) + enc_num(n) + b"\x09" + b"\x00" * n + b"\x00" + b"\x00" + b"\x00"
        else:
            folder = enc_num(1) + b"\x11\x00" + enc_num(n) + enc_num(n) + b"".join(enc_num(i + 1) + enc_num(i) for i in range(n - 1))
            hdr = (b"\x01\x04\x06" + enc_num(0) + enc_num(1) + b"\x09" + enc_num(0) + b"\x00" + b"\x07\x0b" + enc_num(1) + b"\x00" + folder +
                   b"\x0c" + enc_num(0) * n + b"\x00" + b"\x00" + b"\x00")
        coder = [{"m": RC.M_LZMA2, "dict": 1 << 20}]
        body, rec = wrap(hdr, b"")
        return RW.seal(body, rec)
    if what.startswith("biglink"):
        # a member flagged as symbolic link whose "target text" is hundreds of MiB of zeros (a few dozen KiB packed)
        mib = int(what[7:])
        files = [{"name": "l", "data": bytes(mib << 20), "attr": S.A_LINK, "mtime": 132000000000000000}]
        return RW.build(files, [{"coders": [{"m": RC.M_LZMA2, "dict": 1 << 16}], "n": 1}], {"header": "raw"}).data
    if what.startswith("nested"):
        depth = int(what[6:])
        payload = inner
        for _ in range(depth):
            body, payload = wrap(payload, body)
        return RW.seal(body, payload)
    if what == "selfref":
        # an encoded-header record whose single Copy-coded pack stream is the record itself
        size = 20
        for _ in range(8):
            fe = [{"coders": [{"m": RC.M_COPY, "props": None}], "packed": b"", "packsize": size, "unpack_sizes": [size], "subs": [(size, 0)], "fcrc": False,
                   "folder_crc_value": 0, "scrc": [False]}]
            rec = RW.serialize(RW.build_streams(fe, len(body), False, True, "auto", True, "omit", main_id=0x17))
            if len(rec) == size:
                break
            size = len(rec)
        return RW.seal(body, rec)
    if what == "cycle2":
        # two encoded-header records, each Copy-decoding to the other: the next header points at A, A's stream is B, B's stream is A
        sa = sb = 20
        for _ in range(10):
            off_b = len(body)
            off_a = off_b + sb

            def rec(pos, size):
                fe = [{"coders": [{"m": RC.M_COPY, "props": None}], "packed": b"", "packsize": size, "unpack_sizes": [size], "subs": [(size, 0)], "fcrc": False,
                       "folder_crc_value": 0, "scrc": [False]}]
                return RW.serialize(RW.build_streams(fe, pos, False, True, "auto", True, "omit", main_id=0x17))

            B = rec(off_a, sa)
            A = rec(off_b, sb)
            if len(A) == sa and len(B) == sb:
                break
            sa, sb = len(A), len(B)
        return RW.seal(body + B, A)
    raise ValueError(what)


def run_calls(data, pw, calls, how, workdir):
    """returns list of (call, outcome string); raises only non-Exception BaseExceptions"""
    res = []
    path = os.path.join(workdir, "in.7z")
    try:
        if how == "path":
            with open(path, "wb") as f:
                f.write(data)
            z = py7zr.SevenZipFile(path, "r", password=pw)
        else:
            z = py7zr.SevenZipFile(io.BytesIO(data), "r", password=pw)
    except Exception as e:
        return [("open", "raises:" + type(e).__name__)]
    res.append(("open", "ok"))
    try:
        for c in calls:
            try:
                if c == "getnames":
                    z.getnames()
                elif c == "list":
                    z.list()
                elif c == "archiveinfo":
                    z.archiveinfo()
                elif c == "needs_password":
                    z.needs_password()
                elif c == "test":
                    z.test()
                elif c == "testzip":
                    z.testzip()
                elif c == "extractall_null":
                    z.extractall(factory=NullIOFactory())
                elif c == "extractall_limited":
                    # a size-limited in-memory writer (returns 0 from write() once full), members delivered in 48-byte pieces
                    from vlib import patches as _p
                    from py7zr.io import BytesIOFactory as _BF

                    with _p.memory_limit(48):
                        z.extractall(factory=_BF(40))
                elif c == "extractall_path":
                    d = os.path.join(workdir, "o%d" % len(res))
                    z.extractall(d)
                elif c in ("extract_first", "extract_last"):
                    names = z.getnames()
                    if names:
                        z.extract(targets=[names[0] if c == "extract_first" else names[-1]], factory=NullIOFactory())
                elif c == "reset":
                    z.reset()
                elif c == "getinfo":
                    names = z.getnames()
                    z.getinfo(names[0] if names else "x")
                res.append((c, "ok"))
            except Exception as e:
                res.append((c, "raises:" + type(e).__name__))
    finally:
        try:
            z.close()
        except Exception as e:
            res.append(("close", "raises:" + type(e).__name__))
    return res


class C05(Check):
    property_id = "C05"
    level = "exploration"
    technique = "structure-aware mutation (reference-writer token tree, CRCs re-sealed) + byte-level mutation x generated read-call sequences in sandboxed children with watchdog and peak-RSS measurement"
    rule = ("case = seed archive (reference- and py7zr-written, every codec family, AES, encoded/encrypted header; fixtures <= 64 KiB for "
            "byte-level) x mutation: (tree) 1..3 ops on the decoded header tree - set any NUMBER/u32/u64 to one of 32 extreme values, any id "
            "byte, any raw field (vectors, names, coder ids/properties) to variants, force a property size, drop/duplicate/swap a node - "
            "then re-serialise (raw/LZMA/AES) and re-seal both header CRCs; (outer) same on the encoded-header record; (bytes) "
            "truncate/flip/overwrite/splice/insert/delete; x password right/wrong/absent x open by path/stream x 1..4 calls over "
            "getnames,list,archiveinfo,needs_password,test,testzip,extractall(null),extractall(path),extract(first/last),reset,getinfo. "
            "Oracle: every call returns or raises an Exception, the whole case ends within 20 s (confirmed alone with 60 s), peak RSS growth "
            "<= 512 MiB, the child survives. Non-trivial: both header CRCs verify (parser entered) or >= 2 decoding calls; distinct by "
            "(seed, kind, ops applied, call sequence, password mode).")
    assumptions = ["7zAES cycle counts 20..24 and dictionary/model sizes > 64 MiB are legitimate expensive declarations and kept out of the value sets",
                   "time bound 20 s for inputs whose legitimate work is < 1 s"]
    budget_s = {"quick": 70, "thorough": 1500}
    sandbox_timeout = 20

    def setup(self, env):
        for n in S.ref_specs():
            get_built(n)
        env.state["k"] = 0

    def strategy(self, env):
        refs = sorted(S.ref_specs())
        allseeds = seed_names() + fixture_names()
        op_tree = st.fixed_dictionaries({"t": st.integers(0, 400), "op": st.sampled_from(["set", "set", "set", "set", "drop", "dup", "swap"]),
                                         "v": st.integers(0, 255)})
        op_byte = st.fixed_dictionaries({"t": st.integers(0, 1 << 20), "op": st.sampled_from(["trunc", "flip", "flip", "byte", "splice", "insert", "delete"]),
                                         "v": st.integers(0, 1 << 16)})
        calls = st.lists(st.sampled_from(CALLS + ["testzip", "extractall_null", "extractall_null"]), min_size=1, max_size=4)
        pwm = st.sampled_from(["right", "right", "right", "wrong", "none"])
        how = st.sampled_from(["stream", "stream", "path"])
        tree = st.fixed_dictionaries({"kind": st.just("tree"), "seed": st.sampled_from(refs), "tree": st.sampled_from(["inner", "inner", "inner", "outer"]),
                                      "hdr": st.sampled_from([None, None, "raw", "lzma", "aes"]),
                                      "ops": st.lists(op_tree, min_size=1, max_size=3), "calls": calls, "pw": pwm, "how": how})
        byt = st.fixed_dictionaries({"kind": st.just("bytes"), "seed": st.sampled_from(allseeds), "seed2": st.sampled_from(allseeds),
                                     "ops": st.lists(op_byte, min_size=0, max_size=3), "calls": calls, "pw": pwm, "how": how})
        return st.one_of(tree, tree, tree, byt)

    def examples(self, env):
        return env.n(1500, 40000)

    def enumerated(self, env):
        j = 0
        for what in ("nested1", "nested2", "nested3", "nested6", "selfref", "cycle2"):
            for coder in ("copy", "lzma"):
                for crcflag in (True, False):
                    for seed in ("copy", "lzma2", "multi3"):
                        j += 1
                        if env.mine(j) and not (what in ("selfref", "cycle2") and coder == "lzma"):
                            yield {"kind": "special", "what": what, "coder": coder, "crc": crcflag, "seed": seed, "ops": [], "calls": ["getnames", "extractall_null", "testzip"],
                                   "pw": "none", "how": "stream" if j % 2 else "path"}
        for what in ("manypack300000", "manybind150000", "manypack3000", "manybind2000"):
            j += 1
            if env.mine(j):
                yield {"kind": "special", "what": what, "coder": "copy", "crc": True, "seed": "copy", "ops": [], "calls": ["getnames", "testzip"], "pw": "none",
                       "how": "stream"}
        j += 1
        if env.mine(j):
            yield {"kind": "special", "what": "biglink600", "coder": "copy", "crc": True, "seed": "copy", "ops": [], "calls": ["getnames", "extractall_path"], "pw": "none",
                   "how": "path"}
        # every seed, unmodified, through the size-limited writer
        for name in seed_names():
            j += 1
            if env.mine(j):
                yield {"kind": "tree", "seed": name, "tree": "inner", "hdr": None, "ops": [], "calls": ["extractall_limited", "reset", "extractall_limited"], "pw": "right", "how": "stream" if j % 2 else "path"}
        yield from self.sweep(env, 1 << 20)
        # explicit histories the property names: extract twice without reset, testzip after extractall, on every seed
        i = 0
        for name in seed_names():
            for calls in (["extractall_null", "extractall_null"], ["extractall_null", "testzip"], ["testzip", "extractall_null"],
                          ["testzip", "testzip", "test"], ["extract_last", "extract_first"], ["extractall_null", "reset", "extractall_null"]):
                i += 1
                if env.mine(i):
                    yield {"kind": "bytes", "seed": name, "ops": [], "calls": calls, "pw": "right", "how": "stream" if i % 2 else "path"}
            # every truncation length of the small seeds (byte-level, exhaustive)
            data, _ = get_bytes(name)
            if len(data) <= 400:
                for n in range(0, len(data), 1 if env.quick is False else 3):
                    i += 1
                    if env.mine(i):
                        yield {"kind": "bytes", "seed": name, "ops": [{"t": n, "op": "trunc", "v": 0}], "calls": ["extractall_null", "testzip"],
                               "pw": "right", "how": "stream"}

    def finalize(self, merged, env):
        """thorough tier: coverage-guided byte fuzzing (atheris/libFuzzer) of the read path; artifacts become C05 cases"""
        if env.quick and not os.environ.get("VERIF_C05_FUZZ"):
            return
        import hashlib
        import subprocess
        import sys
        import tempfile

        from vlib.runner import VERIF, Executor

        budget = int(os.environ.get("VERIF_C05_FUZZ", "600" if not env.quick else "60"))
        target = os.path.join(VERIF, "fuzz", "c05_atheris.py")
        try:
            subprocess.run([sys.executable, "-c", "import sys; sys.path.append(%r); import atheris" % os.path.join(VERIF, ".deps")], check=True, capture_output=True)
        except Exception:
            merged.extra["atheris_unavailable"] = 1
            return
        work = tempfile.mkdtemp(prefix="c05fuzz", dir=env.scratch)
        ex = Executor(self, env)
        try:
            for mode in ("seeded", "empty"):
                corpus = os.path.join(work, "corpus-" + mode)
                art = os.path.join(work, "art-" + mode) + os.sep
                os.makedirs(corpus)
                os.makedirs(art)
                if mode == "seeded":
                    for n in seed_names() + fixture_names():
                        d = get_bytes(n)[0]
                        if len(d) <= 4096:
                            with open(os.path.join(corpus, hashlib.sha1(d).hexdigest()), "wb") as f:
                                f.write(d)
                cmd = [target, corpus, "-max_total_time=%d" % (budget // 2), "-timeout=20", "-rss_limit_mb=2048", "-max_len=8192", "-seed=%d" % (env.seed + 1),
                       "-fork=8", "-ignore_timeouts=1", "-ignore_ooms=1", "-ignore_crashes=1", "-artifact_prefix=" + art, "-print_final_stats=1"]
                p = subprocess.run(cmd, capture_output=True, timeout=budget + 300, env=dict(os.environ, PYTHONHASHSEED="0"))
                tail = p.stderr.decode("utf-8", "replace")[-4000:]
                import re

                m = re.findall(r"^#(\d+):", tail, re.M)
                execs = int(m[-1]) if m else 0
                merged.extra["atheris_execs_" + mode] = execs
                merged.extra["atheris_corpus_" + mode] = len(os.listdir(corpus))
                arts = sorted(os.listdir(art))
                merged.extra["atheris_artifacts_" + mode] = len(arts)
                from fuzz_reseal import reseal

                seen = set()
                for a in arts[:200]:
                    with open(os.path.join(art, a), "rb") as f:
                        raw = f.read()
                    if len(raw) < 33:
                        continue
                    d = reseal(raw)
                    h = hashlib.sha1(d).hexdigest()
                    if h in seen:
                        continue
                    seen.add(h)
                    case = {"kind": "raw", "seed": "atheris:" + a.split("-")[0], "hex": d.hex(), "ops": [], "calls": ["getnames", "list", "extractall_null", "testzip", "test"],
                            "pw": "right" if raw[0] & 1 else "none", "how": "stream"}
                    merged.record(case, ex.run(case))
        finally:
            ex.close()
            shutil.rmtree(work, ignore_errors=True)

    def sweep(self, env, i0):
        """exhaustive single-mutation sweep: every node of every seed's header tree x every value of its kind"""
        i = i0
        for name in sorted(S.ref_specs()):
            b, opts, pw = get_built(name)
            for which, tree in (("inner", b.inner), ("outer", b.outer)):
                if tree is None:
                    continue
                flat = RW.flatten(tree)
                for t in range(len(flat) - 1):
                    node = flat[1 + t][0]
                    if node.kind in ("num", "u32", "u64", "sized"):
                        nv = len(EXT)
                    elif node.kind == "byte":
                        nv = 8
                    elif node.kind == "raw":
                        nv = 6 * len(SAFE_AES_CYCLES) if (node.name == "props" and len(node.val) >= 2 and node.val[0] & 0xC0) else 8
                    else:
                        nv = 0
                    ops = [{"t": t, "op": "set", "v": v} for v in range(nv)] + [{"t": t, "op": "drop", "v": 0}, {"t": t, "op": "dup", "v": 0},
                                                                                {"t": t, "op": "swap", "v": 0}]
                    for op in ops:
                        i += 1
                        if env.mine(i):
                            yield {"kind": "tree", "seed": name, "tree": which, "hdr": None, "ops": [op], "calls": ["extractall_null", "testzip", "test"],
                                   "pw": "right", "how": "stream"}
                # two-operation sweep: a count set to a huge value while one section is dropped (the declared count then has no data behind it)
                counts = [t for t in range(len(flat) - 1) if flat[1 + t][0].kind == "num" and flat[1 + t][0].name in COUNT_NAMES]
                secs = [t for t in range(len(flat) - 1) if flat[1 + t][0].kind in ("sec", "sized")]
                for tc in counts:
                    for v in (COUNT_VALUES[1:2] + COUNT_VALUES[-1:] if env.quick else COUNT_VALUES):
                        for ts in secs:
                            if ts == tc:
                                continue
                            i += 1
                            if env.mine(i):
                                # drop first (indices after it shift), so order the ops by descending index
                                ops2 = [{"t": tc, "op": "set", "v": v}, {"t": ts, "op": "drop", "v": 0}]
                                if ts < tc:
                                    ops2 = [{"t": tc, "op": "set", "v": v}, {"t": ts, "op": "drop", "v": 0}]
                                yield {"kind": "tree", "seed": name, "tree": which, "hdr": None, "ops": ops2, "calls": ["extractall_null", "test"],
                                       "pw": "right", "how": "stream"}

    def execute(self, case, env):
        out = Outcome()
        try:
            data, pw, applied = build_input(case)
        except (ValueError, KeyError, IndexError, OverflowError, RecursionError) as e:
            out.skipped = "unbuildable:" + type(e).__name__
            return out
        if case["kind"] == "raw" and _expensive(data):
            out.skipped = "legitimately-expensive-declaration"
            return out
        if case["pw"] == "wrong":
            pw = "not-the-password"
        elif case["pw"] == "none":
            pw = None
        entered = header_crcs_ok(data)
        ndec = sum(1 for c in case["calls"] if c in DECODING)
        out.nontrivial = entered or ndec >= 2
        out.descriptor = (case["seed"], case["kind"], tuple(applied), tuple(case["calls"]), case["pw"], case.get("hdr"), case.get("tree"))
        out.label("kind:" + case["kind"], "parser-entered" if entered else "rejected-by-crc", "pw:" + case["pw"], "how:" + case["how"])
        if case["kind"] == "tree":
            out.count("tree_cases")
            if entered:
                out.count("tree_cases_entering_parser")
        env.state["k"] += 1
        work = os.path.join(env.scratch, "w%d" % env.state["k"])
        os.makedirs(work, exist_ok=True)
        sandbox.reset_hwm()
        rss0 = sandbox.vm_rss_kb()
        try:
            res = run_calls(data, pw, case["calls"], case["how"], work)
        except BaseException as e:  # SystemExit, KeyboardInterrupt, GeneratorExit ...: the interpreter would have died
            if isinstance(e, Exception):
                raise
            out.violate({"kind": "base-exception", "exc": type(e).__name__}, observed=repr(e)[:200], expected="ordinary Exception or return")
            res = []
        finally:
            shutil.rmtree(work, ignore_errors=True)
        growth = max(0, sandbox.vm_hwm_kb() - rss0)
        out.count("max_rss_growth_mb_sum", growth // 1024)
        for c, r in res:
            out.label("call:%s:%s" % (c, "raises" if r.startswith("raises") else "ok"))
        if growth > MEM_LIMIT_KB:
            last = res[-1][0] if res else "open"
            out.violate({"kind": "memory", "call": last, "entered": entered},
                        observed={"rss_growth_mb": growth // 1024, "input_bytes": len(data), "calls": res}, expected="<= 512 MiB for an input of this size")
        out.sample = {"seed": case["seed"], "kind": case["kind"], "applied": applied, "calls": res, "pw": case["pw"], "bytes": len(data)}
        return out


CHECK = C05()
