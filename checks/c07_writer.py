"""C07 - writer conformance: everything py7zr writes is well-formed 7z that an independent
strict reader (with an independent 7zAES key derivation) accepts and decodes to the model."""
import os
import shutil
import time

from gen import basic as G
from gen import sessions as SS
from ref7z import coders as RC
from ref7z import reader as RR
from vlib import arch, patches
from vlib.runner import Check, Outcome

from py7zr.exceptions import AbsolutePathError, UnsupportedCompressionMethodError

from checks.c01_roundtrip import is_kf03, main_codec


def inv_class(v: str) -> str:
    """structural invariant name without its numbers"""
    import re

    return re.sub(r"\(.*", "", re.sub(r"\d+", "N", v))


class C07(Check):
    property_id = "C07"
    level = "exploration"
    technique = "generated py7zr-written archives (chains x header modes x passwords x 1..3 create/append sessions x writestr/writef/write of files, empty files, directories, symlinks) parsed by an independent strict reader"
    rule = ("case = history of 1..3 sessions (create then appends), each with its own filter chain (password constant), 0..4 entries added via "
            "writestr / writef / write(file|empty file|directory|symlink with given mode and ns mtime), header raw/encoded/encrypted, target "
            "path/BytesIO/file object. Oracle: ref7z.reader strict mode reports zero structural violations (start/next header offset, size, "
            "CRCs; packed sizes tile the data area exactly; per-coder unpack sizes equal stage outputs; substream sizes sum to the folder; "
            "every stored CRC matches; counts agree; every FilesInfo property occupies its declared size; vector padding zero; names "
            "NUL-terminated) and the recovered members equal the model (names, order, kind, bytes, mtime FILETIME within 5 us, mode bits). "
            "Non-trivial: >=1 non-empty member and (non-default chain, >=2 sessions, an empty-stream entry or encryption); distinct by "
            "(chains, header, sessions, entry kinds).")
    assumptions = ["ref7z.reader is the trusted base (validated on the 7-Zip-written fixtures)",
                   "zero-length members stored as zero-size substreams are accepted (7-Zip reads them)",
                   "AES cases are run with the library's 2^19 KDF rounds re-derived independently with hashlib"]
    budget_s = {"quick": 75, "thorough": 1500}
    sandbox_timeout = 90

    def setup(self, env):
        patches.deterministic_iv(env.seed * 31 + env.shard)
        env.state["k"] = 0

    def strategy(self, env):
        from hypothesis import strategies as st

        return st.tuples(SS.history(3, 4, aes=True), st.sampled_from([None, None, None, 5000, 300000])).map(lambda t: dict(t[0], prefill=t[1]))

    def examples(self, env):
        return env.n(140, 2500)

    def enumerated(self, env):
        # member counts around vector/NUMBER boundaries (7, 8, 9, 16, 127, 128, 129 files), with a directory among them
        i = 0
        for n in (7, 8, 9, 15, 16, 17, 64, 127, 128, 129):
            for with_dir in (False, True):
                for header in ("raw", "encoded"):
                    i += 1
                    if not env.mine(i):
                        continue
                    if env.quick and n > 20 and header == "encoded":
                        continue
                    entries = [{"how": "writestr", "data": ["hex", "%02x" % (j & 0xFF)], "mode": 0o644, "mtime_ns": 10 ** 18, "name": "f%03d" % j}
                               for j in range(n - (1 if with_dir else 0))]
                    if with_dir:
                        entries.insert(n // 2, {"how": "write-dir", "data": ["hex", ""], "mode": 0o755, "mtime_ns": 1600000000 * 10 ** 9 + 123456700,
                                                "name": "dir%d" % n})
                    yield {"sessions": [{"filters": [{"id": G.F_COPY}], "entries": entries}], "header": header, "target": "bytesio", "password": None}
        # member sizes exactly at the 2- and 3-byte NUMBER boundaries, alone and as the sum of a solid block; first session opened
        # with 'a' on a garbage file
        for sizes in ([16384], [10000, 6384], [16383], [16385], [127, 1], [128], [2097152]):
            for prefill in (None, 40000):
                i += 1
                if env.mine(i):
                    ents = [{"how": "writestr", "data": ["gen", "random", n, 40 + j], "mode": 0o644, "mtime_ns": 10 ** 18, "name": "s%d" % j} for j, n in enumerate(sizes)]
                    yield {"sessions": [{"filters": [{"id": G.F_COPY}], "entries": ents}], "header": "raw" if prefill else "encoded", "target": "path", "password": None,
                           "prefill": prefill}
        # three-coder chains and BCJ/Delta chains, also appended onto another chain
        chains = [[{"id": G.F_DELTA, "dist": 3}, {"id": G.F_X86}, {"id": G.F_LZMA2, "preset": 1}], [{"id": G.F_X86}, {"id": G.F_LZMA2, "preset": 1}, {"id": G.F_AES}],
                  [{"id": G.F_X86}, {"id": G.F_BZIP2}, {"id": G.F_AES}], [{"id": G.F_ARM}, {"id": G.F_ZSTD, "level": 1}, {"id": G.F_AES}],
                  [{"id": G.F_DELTA, "dist": 1}, {"id": G.F_LZMA, "preset": 1}], [{"id": G.F_SPARC}, {"id": G.F_DEFLATE}]]
        for ci, ch in enumerate(chains):
            for two in (False, True):
                i += 1
                if not env.mine(i):
                    continue
                pw = "pw" if any(f["id"] == G.F_AES for f in ch) else None
                e1 = [{"how": "writestr", "data": ["gen", "x86", 700, ci], "mode": 0o644, "mtime_ns": 10 ** 18, "name": "a.bin"},
                      {"how": "writestr", "data": ["hex", "01"], "mode": 0o644, "mtime_ns": 10 ** 18, "name": "tiny"}]
                sessions = [{"filters": ch, "entries": e1}]
                if two:
                    sessions.insert(0, {"filters": [{"id": G.F_COPY}] + ([{"id": G.F_AES}] if pw else []),
                                        "entries": [{"how": "writestr", "data": ["gen", "text", 90, 5], "mode": 0o644, "mtime_ns": 10 ** 18, "name": "first"}]})
                yield {"sessions": sessions, "header": "raw" if ci % 2 else "encoded", "target": "bytesio", "password": pw}

    def execute(self, case, env):
        SS.RECORD.clear()
        out = self._execute(case, env)
        arch.absorb_destructor_error()
        # KF-47: failures of a Deflate64 folder whose input the inflate64 library itself cannot round-trip are marked as such
        return arch.tag_kf47(out, [(f, [m["data"] for m in added if m.get("kind") in ("file", "link") and m.get("data")]) for f, added in SS.RECORD])

    def _execute(self, case, env):
        out = Outcome()
        sessions = case["sessions"]
        pw = case["password"]
        if any(s["filters"] and is_kf03(s["filters"]) for s in sessions):
            out.skipped = "KF-03"
            return out
        names = [e["name"] for s in sessions for e in s["entries"]]
        if len(set(names)) != len(names):
            out.skipped = "duplicate-names"
            return out
        fams = tuple(G.chain_family(s["filters"]) for s in sessions)
        kinds = tuple("".join(e["how"].replace("write-", "W")[:2] for e in s["entries"]) for s in sessions)
        nonempty = any(G.content_len(e["data"]) > 0 and e["how"] in ("writestr", "writef", "write-file") for s in sessions for e in s["entries"])
        es_entry = any(e["how"] == "write-dir" for s in sessions for e in s["entries"])
        out.nontrivial = nonempty and (any(s["filters"] is not None for s in sessions) or len(sessions) >= 2 or es_entry or pw is not None)
        out.descriptor = (fams, case["header"], pw is not None, kinds, case["target"])
        out.label("sessions=%d" % len(sessions), "header:" + case["header"], "pw" if pw is not None else "nopw")
        out.label(*["chain:" + f for f in set(fams)])
        out.sample = {"chains": fams, "header": case["header"], "password": pw is not None, "kinds": kinds, "target": case["target"]}
        env.state["k"] += 1
        work = env.tmpdir("c7-")
        src = os.path.join(work, "src")
        os.makedirs(src)
        tgt = arch.Target(case["target"], work)
        model = []
        t_start = time.time()
        try:
            idx = 0
            for si, s in enumerate(sessions):
                filters = s["filters"]
                if pw is not None and filters is not None and not any(f["id"] == G.F_AES for f in filters):
                    # password constant over the history: every session's chain ends in 7zAES
                    filters = filters + [{"id": G.F_AES}]
                try:
                    first_mode = "w"
                    if si == 0 and case.get("prefill") and case["target"] in ("path", "file"):
                        # the first session opens with 'a' a file that exists but is no archive (and is longer than the archive
                        # will be): the documented fallback writes a new archive, of which no old byte may remain
                        with open(tgt.path, "wb") as f0:
                            f0.write(b"\x5a" * int(case["prefill"]))
                        first_mode = "a"
                        out.label("prefilled-non-archive")
                    z = arch.open_write(tgt.for_write("w" if (si == 0 and first_mode == "w") else "a"), filters, pw, case["header"],
                                        mode=first_mode if si == 0 else "a")
                except UnsupportedCompressionMethodError:
                    out.label("rejected_config")
                    out.nontrivial = False
                    return out
                try:
                    added = SS.run_session(z, s, src, idx)
                    z.close()
                except (UnsupportedCompressionMethodError, AbsolutePathError):
                    # the chain is only assembled at the first write; write() refuses a source name that is still drive-prefixed
                    # after one drive prefix was stripped ('c:/c:') - a clean rejection, C16 judges names
                    out.label("rejected_config")
                    out.nontrivial = False
                    return out
                except Exception as e:
                    cls, frame = arch.exc_sig(e)
                    out.violate({"kind": "write-raises", "exc": cls, "frame": frame, "session": min(si, 1)}, observed=repr(e)[:300], expected="session written")
                    return out
                finally:
                    tgt.release()
                idx += len(s["entries"])
                model.extend(added)
            data = tgt.bytes()
            t_end = time.time()
            sig = {"codec": main_codec(sessions[-1]["filters"]), "sessions": min(len(sessions), 2), "header": case["header"]}
            try:
                P = RR.parse(data, password=pw, own_writer=True)
            except RR.ParseError as e:
                out.violate(dict(sig, kind="unparseable", what=inv_class(str(e))), observed=str(e)[:300], expected="well-formed archive")
                return out
            except RC.Unsupported as e:
                out.inconclusive = "ref-unsupported:" + str(e)[:40]
                return out
            hv = RR.hard_violations(P)
            if pw is not None and case["header"].startswith("encrypted"):
                pass
            for v in hv[:3]:
                out.violate(dict(sig, kind="malformed", what=inv_class(v)), observed=hv[:4], expected="no structural violation")
            if P.errors:
                out.violate(dict(sig, kind="undecodable", what=inv_class(P.errors[0])), observed=P.errors[:2], expected="reference reader decodes every folder")
                return out
            got = P.members
            if [m["name"] for m in got] != [m["name"] for m in model]:
                out.violate(dict(sig, kind="names-differ"), observed=[m["name"] for m in got][:8], expected=[m["name"] for m in model][:8])
                return out
            lo = SS.expected_filetime(int((t_start - 2) * 1e9))
            hi = SS.expected_filetime(int((t_end + 2) * 1e9))
            for m, g in zip(model, got):
                if g["kind"] != m["kind"]:
                    out.violate(dict(sig, kind="kind-differs", want=m["kind"], got=g["kind"]), observed=m["name"], expected=m["kind"])
                elif g["data"] != m["data"]:
                    out.violate(dict(sig, kind="bytes-differ", member=m["kind"]), observed={"name": m["name"], "len": len(g["data"] or b"")},
                                expected={"len": len(m["data"])})
                for what, gv, wv in SS.check_member_meta(m, g["mtime"], g["attr"]):
                    out.violate(dict(sig, kind="metadata-differs", field=what), observed={"name": m["name"], "got": gv}, expected=wv)
                if m.get("mtime_ns") is None and m["kind"] == "file" and (g["mtime"] is None or not (lo <= g["mtime"] <= hi)):
                    out.violate(dict(sig, kind="metadata-differs", field="mtime-now"), observed={"name": m["name"], "got": g["mtime"]}, expected=[lo, hi])
                if g["kind"] in ("file", "link") and g["crc"] is None:
                    out.violate(dict(sig, kind="member-without-crc"), observed=m["name"], expected="per-file CRC")
            if pw is not None:
                out.count("aes_archives")
                # independent check that the outermost coder of every folder is 7zAES
                for f in P.folders:
                    if f["coders"][0]["m"] != RC.M_AES:
                        out.violate(dict(sig, kind="folder-not-encrypted"), observed=[c["m"] for c in f["coders"]], expected="7zAES outermost")
        finally:
            tgt.release()
            shutil.rmtree(work, ignore_errors=True)
        return out


CHECK = C07()
