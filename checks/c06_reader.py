"""C06 - reader conformance: any valid 7z layout is read as the format defines it.

Logical archives x physical layouts are emitted by the reference writer; py7zr's view
(listing metadata, factory extraction, on-disk kinds) must equal the logical model.
Third-party fixtures are cross-checked against the reference reader's decode."""
import glob
import io
import json
import os
import shutil
import stat
import zlib

from gen import basic as G
from gen import layouts as LY
from ref7z import coders as RC
from ref7z import reader as RR
from ref7z import writer as RW
from vlib import arch
from vlib.runner import Check, HarnessError, Outcome, REPO

import py7zr
from py7zr.io import BytesIOFactory

FIXTURE_PW = {"encrypted_1.7z": "secret", "encrypted_2.7z": "secret", "encrypted_3.7z": "secret", "encrypted_5.7z": "secret",
              "encrypted_6.7z": "secret", "filename_encryption.7z": "hello"}


def crc(b):
    return zlib.crc32(b) & 0xFFFFFFFF


def features(files, folders, opts):
    f = set()
    if len(folders) >= 2:
        f.add("folders>=2")
    if any(fo["n"] == 0 for fo in folders):
        f.add("empty-folder")
    seen_data = False
    for i, x in enumerate(files):
        if not x.get("es"):
            seen_data = True
        elif seen_data and any(not y.get("es") for y in files[i + 1:]):
            f.add("interleaved-empty")
    if any(fo.get("fcrc") for fo in folders):
        f.add("folder-crc")
    if any(fo.get("fcrc") and fo["n"] > 1 for fo in folders):
        f.add("folder-crc-multi")
    if any(fo.get("scrc") != "all" and fo.get("scrc") != [True] * fo["n"] for fo in folders):
        f.add("subcrc-partial")
    if opts.get("packpos"):
        f.add("packpos")
    if opts.get("pack_crc"):
        f.add("pack-crc")
    if opts.get("dummy", -1) >= 0:
        f.add("dummy")
    if any(x.get("ef") for x in files) or (opts.get("emptyfile_vec") == "always" and any(x.get("es") for x in files)):
        f.add("emptyfile-vec")
    if any(x.get("attr") is None for x in files) and any(x.get("attr") is not None for x in files):
        f.add("attr-partial")
    if all(x.get("attr") is None for x in files):
        f.add("attr-none")
    if any(x.get("es") and not x.get("ef") and not ((x.get("attr") or 0) & 0x10) for x in files):
        f.add("dir-without-dir-attr")
    for k in ("mtime", "ctime", "atime"):
        vals = [x.get(k) for x in files]
        if any(v is None for v in vals) and any(v is not None for v in vals):
            f.add(k + "-partial")
    if any(x.get("ctime") is not None or x.get("atime") is not None for x in files):
        f.add("ctime/atime")
    if opts.get("startpos"):
        f.add("startpos")
    if opts.get("comment"):
        f.add("comment-prop")
    if opts.get("pack_crc") == "partial":
        f.add("pack-crc-partial")
    if opts.get("archive_props"):
        f.add("archive-props")
    for fo in folders:
        for c in fo["coders"]:
            if c["m"] == RC.M_AES:
                if not c.get("iv") and not c.get("salt"):
                    f.add("aes-props-1byte")
                elif c.get("salt"):
                    f.add("aes-salt")
                elif len(c.get("iv", "")) < 32:
                    f.add("aes-short-iv")
                if c.get("cycles") == 0x3F:
                    f.add("aes-cycles-3f")
    if opts.get("substreams") == "omit":
        f.add("substreams-omitted")
    if opts.get("numunpack") == "always":
        f.add("numunpack-explicit")
    if not opts.get("defined_shortcut", True):
        f.add("no-alldefined-shortcut")
    if opts.get("header") != "raw":
        f.add("hdr:" + str(opts.get("header")))
        if not opts.get("hdr_crc", True):
            f.add("hdr-nocrc")
    if any(not x.get("es") and x.get("data") == b"" for x in files):
        f.add("zero-substream")
    if not folders:
        f.add("no-streams")
    return f


PY_WRITER_NEVER = {"empty-folder", "folders>=2", "interleaved-empty", "folder-crc", "subcrc-partial", "packpos", "dummy", "emptyfile-vec", "attr-partial", "attr-none",
                   "mtime-partial", "ctime/atime", "substreams-omitted", "numunpack-explicit", "no-alldefined-shortcut", "pack-crc", "no-streams",
                   "dir-without-dir-attr"}


def expected_members(files):
    out = []
    for f in files:
        kind = "dir" if (f.get("es") and not f.get("ef")) else ("empty" if f.get("es") else "file")
        a = f.get("attr")
        if kind == "file" and a is not None and a & 0x8000 and stat.S_ISLNK(a >> 16):
            kind = "link"
        out.append({"name": f["name"], "kind": kind, "data": f.get("data", b""), "mtime": f.get("mtime"), "ctime": f.get("ctime"),
                    "atime": f.get("atime"), "attr": a})
    return out


def py_view(z):
    v = []
    for f in z.files:
        v.append({"name": f.filename, "is_dir": f.is_directory, "is_link": f.is_symlink, "es": bool(f.emptystream), "size": f.uncompressed,
                  "crc": f.crc32, "mtime": None if f.lastwritetime is None else int(f.lastwritetime),
                  "ctime": None if f._get_property("creationtime") is None else int(f._get_property("creationtime")),
                  "atime": None if f._get_property("lastaccesstime") is None else int(f._get_property("lastaccesstime")),
                  "attr": f._get_property("attributes")})
    return v


class C06(Check):
    property_id = "C06"
    level = "exploration"
    technique = "Hypothesis-generated logical archives x physical layouts emitted by an independent reference writer + covering enumeration of layout switches; third-party fixtures cross-checked with the reference reader"
    rule = ("case = 1..7 logical members (file / zero-length file / empty file / directory / symlink; optional mtime/ctime/atime/attributes) x "
            "partition into folders x coder chain per folder (LZMA2/LZMA with Delta or a BCJ filter, Copy, BZip2, Deflate, Deflate64, "
            "ZStandard, PPMd, Brotli with a BCJ filter, each optionally under 7zAES) x folder CRC / substream CRCs all|none|mask x packpos x "
            "packed CRCs x NumUnpackStream explicit x SubStreamsInfo omitted x kDummy x EmptyFile vector x all-defined shortcut x header "
            "raw/LZMA/LZMA2/AES/LZMA+AES (+gap, +/- folder CRC); enumerated covering pass over the switches on a fixed 5-member archive; "
            "plus every fixture under tests/data. Oracle: names/order, kind flags, sizes, stored CRCs, FILETIMEs, attributes, bytes "
            "via factory, kinds on disk equal the logical model (three-way with the reference reader). Non-trivial: the layout uses at least "
            "one feature py7zr's own writer never emits; distinct by (feature set, member-kind pattern, chains).")
    assumptions = ["ref7z writer/reader validated on the 7-Zip-written fixtures; a disagreement between the reference reader and the generating model is a harness error (exit 2), never a violation"]
    budget_s = {"quick": 70, "thorough": 1500}
    sandbox_timeout = 30

    def setup(self, env):
        env.state["k"] = 0

    def enumerated(self, env):
        i = 0
        for p in sorted(glob.glob(os.path.join(REPO, "tests/data/*.7z"))):
            i += 1
            if env.mine(i):
                yield {"fixture": os.path.basename(p)}
        # covering pass over layout switches on a fixed member list
        base = [
            {"name": "d", "kind": "dir", "data": ["hex", ""], "mtime": 132000000000000000, "ctime": None, "atime": None, "attr": LY.A_DIR},
            {"name": "d/a.txt", "kind": "file", "data": ["gen", "text", 300, 1], "mtime": 132000000000000001, "ctime": None, "atime": None, "attr": LY.A_FILE},
            {"name": "d/e", "kind": "empty", "data": ["hex", ""], "mtime": 132000000000000002, "ctime": None, "atime": None, "attr": LY.A_FILE},
            {"name": "b.bin", "kind": "file", "data": ["gen", "random", 77, 2], "mtime": 132000000000000003, "ctime": None, "atime": None, "attr": LY.A_FILE},
            {"name": "c", "kind": "file", "data": ["hex", "78"], "mtime": 132000000000000004, "ctime": None, "atime": None, "attr": LY.A_FILE},
        ]
        orders = [[0, 1, 2, 3, 4], [1, 3, 4, 0, 2], [0, 2, 1, 3, 4]]  # interleaved, empties last, empties first
        cutsets = [[3], [1, 2], [1, 1, 1], [2, 1]]
        import itertools

        for oi, order in enumerate(orders):
            for cuts in cutsets:
                for fcrc, scrc in ((False, "all"), (True, "all"), (True, "none"), (False, "none"), (False, [True, False])):
                    for packpos, pack_crc in ((0, False), (5, True)):
                        for dummy, efv, sc in ((-1, "auto", True), (3, "always", False)):
                            for partial in (False, True):
                                for hdr in (("raw", True), ("lzma", True), ("lzma", False)) if env.quick else (("raw", True), ("lzma", True), ("lzma", False), ("aes", True), ("lzma2", True)):
                                    for subs in ("auto", "omit"):
                                        if subs == "omit" and cuts != [1, 1, 1]:
                                            continue
                                        i += 1
                                        if not env.mine(i):
                                            continue
                                        if env.quick and i % 3:
                                            continue
                                        ms = [dict(base[j]) for j in order]
                                        if partial:
                                            ms[1]["mtime"] = None
                                            ms[3]["attr"] = None
                                        yield {"members": ms, "cuts": cuts, "chains": [[{"m": RC.M_COPY}], [{"m": RC.M_LZMA2, "dict": 65536}]],
                                               "fcrc": [fcrc], "scrc": [scrc],
                                               "opts": {"packpos": packpos, "pack_crc": pack_crc, "numunpack": "auto", "substreams": subs, "dummy": dummy,
                                                        "emptyfile_vec": efv, "defined_shortcut": sc, "header": hdr[0], "hdr_crc": hdr[1], "hdr_gap": 0}}

        # entry counts at the byte boundaries of the bit vectors (7, 8, 9, 15, 16, 17, 24), with partly defined time / attribute /
        # CRC vectors: a vector of exactly 8k bits is where a reader takes one byte too many or too few
        for n in (7, 8, 9, 15, 16, 17, 24):
            for variant in range(4):
                i += 1
                if not env.mine(i):
                    continue
                ms = []
                for j in range(n):
                    ms.append({"name": "m%02d" % j, "kind": "file", "data": ["hex", "%02x%02x" % (j, n)], "mtime": 132000000000000000 + j,
                               "ctime": None, "atime": None, "attr": 0x20})
                if variant in (0, 2):
                    ms[1]["mtime"] = None
                if variant in (1, 2):
                    ms[n - 2]["attr"] = None
                yield {"members": ms, "cuts": [n] if variant != 3 else [1] * n, "chains": [[{"m": RC.M_COPY}]], "fcrc": [False], "scrc": [[j % 3 != 1 for j in range(n)] if variant >= 2 else "all"],
                       "opts": {"packpos": 0, "pack_crc": "partial" if variant == 3 else False, "numunpack": "auto", "substreams": "auto", "dummy": -1,
                                "emptyfile_vec": "auto", "defined_shortcut": bool(variant % 2), "header": "raw" if variant % 2 else "lzma", "hdr_crc": True, "hdr_gap": 0}}

    def strategy(self, env):
        return LY.case_strategy()

    def examples(self, env):
        return env.n(250, 10000)

    # ------------------------------------------------------------------
    def execute(self, case, env):
        out = Outcome()
        if "fixture" in case:
            return self._fixture(case, env, out)
        r = self.evaluate(case, env)
        if r is None:
            out.skipped = "unbuildable"
            return out
        feats, want, folders, viols = r
        kinds = "".join(m["kind"][0] for m in want)
        chains = tuple("+".join(c["m"] for c in fo["coders"]) for fo in folders)
        out.nontrivial = bool(feats & PY_WRITER_NEVER)
        out.descriptor = (tuple(sorted(feats)), kinds, chains)
        out.label(*["feat:" + f for f in sorted(feats)])
        out.label("folders=%d" % len(folders))
        out.sample = {"features": sorted(feats), "kinds": kinds, "chains": chains, "names": [m["name"][:20] for m in want]}
        seen = set()
        for sig, obs, exp in viols:
            key = tuple(sorted(sig.items()))
            if key in seen:
                continue
            seen.add(key)
            blame = self.blame(case, env, sig, feats)
            out.violate(dict(sig, blame="+".join(sorted(blame)) or "-"), observed=obs, expected=exp)
        return out

    def blame(self, case, env, sig, feats):
        """feature-level delta debugging: neutralise layout features one at a time while the same failure persists"""
        cache = env.state.setdefault("blame", {})
        key = tuple(sorted(sig.items()))
        for S in cache.get(key, []):
            if S <= feats:
                return S
        cur = case
        for name, fn in NEUTRALISERS:
            try:
                trial = fn(json.loads(json.dumps(cur)))
            except Exception:
                continue
            if trial is None:
                continue
            r = self.evaluate(trial, env)
            if r is None:
                continue
            if any(tuple(sorted(v[0].items())) == key for v in r[3]):
                cur = trial
        r = self.evaluate(cur, env)
        S = frozenset((r[0] if r else feats)) - {"hdr-nocrc"} if r else frozenset(feats)
        S = frozenset(S)
        cache.setdefault(key, []).append(S)
        return S

    def evaluate(self, case, env):
        """-> (features, expected members, folders, [(signature-without-blame, observed, expected)]) or None"""
        viols = []

        class Sink:
            def violate(self_, sig, observed=None, expected=None):
                viols.append((sig, observed, expected))

            violations = viols

        out = Sink()
        try:
            files, folders, opts, pw = LY.build_case(case)
            built = RW.build(files, folders, opts, pw)
        except (RC.Unsupported, ValueError):
            return None
        data = built.data
        feats = features(files, folders, opts)
        if any(c["m"] != RC.M_COPY for fo in folders for c in fo["coders"]):
            feats.add("non-copy-chain")
        want = expected_members(files)
        # three-way: the reference reader must reproduce the model
        P = RR.parse(data, password=pw)
        if RR.hard_violations(P) or [(m["name"], m["kind"], m["data"]) for m in P.members] != [(m["name"], m["kind"], m["data"]) for m in want]:
            raise HarnessError("reference reader disagrees with its writer: %r" % (P.violations[:3],))
        fs = None
        env.state["k"] += 1
        work = env.tmpdir("c6-")
        os.makedirs(work, exist_ok=True)
        try:
            apath = os.path.join(work, "a.7z")
            with open(apath, "wb") as f:
                f.write(data)
            for how in ("stream", "path"):
                src = io.BytesIO(data) if how == "stream" else apath
                # ---- listing + factory extraction
                try:
                    with py7zr.SevenZipFile(src, "r", password=pw) as z:
                        view = py_view(z)
                        names = z.getnames()
                        fac = BytesIOFactory(arch.BIG)
                        z.extractall(factory=fac)
                        got = {}
                        for k, v in fac.products.items():
                            v.seek(0)
                            got[k] = v.read()
                except Exception as e:
                    cls, frame = arch.exc_sig(e)
                    out.violate({"kind": "valid-archive-rejected", "exc": cls, "frame": frame},
                                observed={"how": how, "exc": repr(e)[:200]}, expected="archive read")
                    continue
                self._compare(out, want, view, names, got, how, fs, folders, files)
                # ---- kinds on disk
                if how == "path" and not viols and _fs_safe(want):
                    dest = os.path.join(work, "out")
                    try:
                        with py7zr.SevenZipFile(apath, "r", password=pw) as z:
                            z.extractall(dest)
                    except Exception as e:
                        cls, frame = arch.exc_sig(e)
                        out.violate({"kind": "extract-to-path-raises", "exc": cls, "frame": frame}, observed=repr(e)[:200],
                                    expected="tree written")
                        continue
                    for m in want:
                        p = os.path.join(dest, m["name"])
                        try:
                            st_ = os.lstat(p)
                        except OSError:
                            out.violate({"kind": "disk-entry-missing", "member": m["kind"]}, observed=m["name"], expected="created")
                            continue
                        k = "link" if stat.S_ISLNK(st_.st_mode) else ("dir" if stat.S_ISDIR(st_.st_mode) else "file")
                        wantk = {"empty": "file"}.get(m["kind"], m["kind"])
                        if k != wantk:
                            out.violate({"kind": "disk-kind-differs", "want": wantk, "got": k}, observed={"name": m["name"], "got": k},
                                        expected=wantk)
                        elif k == "file":
                            with open(p, "rb") as fh:
                                if fh.read() != m["data"]:
                                    out.violate({"kind": "disk-bytes-differ"}, observed=m["name"], expected="model bytes")
                        elif k == "link" and os.readlink(p) != m["data"].decode():
                            out.violate({"kind": "disk-link-differs"}, observed=os.readlink(p), expected=m["data"].decode())
        finally:
            shutil.rmtree(work, ignore_errors=True)
        return feats, want, folders, viols

    def _compare(self, out, want, view, names, got, how, fs, folders, files):
        if names != [m["name"] for m in want]:
            out.violate({"kind": "names-differ"}, observed=names[:8], expected=[m["name"] for m in want][:8])
            return
        # expected stored CRC per member
        crcs = {}
        di = 0
        data_files = [f for f in files if not f.get("es")]
        for fo in folders:
            sc = fo.get("scrc", "all")
            mask = [True] * fo["n"] if sc == "all" else ([False] * fo["n"] if sc == "none" else list(sc))
            for j in range(fo["n"]):
                f = data_files[di]
                di += 1
                if fo["n"] == 1 and fo.get("fcrc"):
                    crcs[f["name"]] = crc(f["data"])
                elif mask[j]:
                    crcs[f["name"]] = crc(f["data"])
                else:
                    crcs[f["name"]] = None
        for m, v in zip(want, view):
            for key, w, g in (("is_directory", m["kind"] == "dir", v["is_dir"]), ("is_symlink", m["kind"] == "link", v["is_link"]),
                              ("emptystream", m["kind"] in ("dir", "empty"), v["es"]), ("uncompressed", len(m["data"]), v["size"]),
                              ("lastwritetime", m["mtime"], v["mtime"]), ("creationtime", m["ctime"], v["ctime"]),
                              ("lastaccesstime", m["atime"], v["atime"]), ("attributes", m["attr"], v["attr"])):
                if w != g:
                    out.violate({"kind": "metadata-differs", "field": key, "member": m["kind"]},
                                observed={"name": m["name"], "got": g}, expected=w)
            true_crc = crc(m["data"])
            if m["kind"] in ("file", "link") and v["crc"] is not None and v["crc"] != true_crc:
                out.violate({"kind": "metadata-differs", "field": "crc32-wrong", "member": m["kind"]},
                            observed={"name": m["name"], "got": v["crc"]}, expected=true_crc)
            stored_sub = crcs.get(m["name"]) is not None and not any(fo["n"] == 1 and fo.get("fcrc") for fo in folders)
            if m["kind"] in ("file", "link") and stored_sub and v["crc"] != crcs[m["name"]]:
                out.violate({"kind": "metadata-differs", "field": "crc32", "member": m["kind"]},
                            observed={"name": m["name"], "got": v["crc"]}, expected=crcs[m["name"]])
        for m in want:
            if m["kind"] == "dir":
                if m["name"] in got:
                    out.violate({"kind": "directory-delivered-as-file"}, observed=m["name"], expected="not delivered")
                continue
            g = got.get(m["name"])
            if g is None:
                out.violate({"kind": "member-not-delivered", "member": m["kind"]},
                            observed={"name": m["name"], "keys": list(got)[:6]}, expected="delivered")
            elif g != m["data"]:
                out.violate({"kind": "bytes-differ", "member": m["kind"]},
                            observed={"name": m["name"], "len": len(g)}, expected={"len": len(m["data"])})
        for k in got:
            if k not in [m["name"] for m in want]:
                out.violate({"kind": "extra-member-delivered"}, observed=k, expected="only model names")

    def _fixture(self, case, env, out):
        name = case["fixture"]
        path = os.path.join(REPO, "tests/data", name)
        pw = FIXTURE_PW.get(name)
        out.label("fixture")
        out.descriptor = ("fixture", name)
        with open(path, "rb") as f:
            data = f.read()
        try:
            P = RR.parse(data, password=pw)
        except (RR.ParseError, RC.Unsupported, RC.CoderError) as e:
            out.label("fixture:ref-cannot-read")
            out.sample = {"fixture": name, "ref": repr(e)[:80]}
            return out
        if P.errors or RR.hard_violations(P) or any(m["data"] is None for m in P.members):
            out.label("fixture:unsupported-or-damaged")
            return out
        out.nontrivial = True
        want = [(m["name"], m["data"]) for m in P.members if m["kind"] != "dir" and m["name"] is not None]
        try:
            names, got = arch.read_all(io.BytesIO(data), pw)
        except Exception as e:
            cls, frame = arch.exc_sig(e)
            out.violate({"kind": "fixture-rejected", "fixture": name, "exc": cls}, observed=repr(e)[:200], expected="read")
            return out
        if all(m["name"] is not None for m in P.members) and names != [m["name"].replace("\\", "/") for m in P.members]:
            out.violate({"kind": "fixture-names-differ", "fixture": name}, observed=names[:5], expected=[m["name"] for m in P.members][:5])
        for n, d in want:
            n = n.replace("\\", "/").lstrip("/")
            if n in got and got[n] != d:
                out.violate({"kind": "fixture-bytes-differ", "fixture": name}, observed=n, expected="reference decode")
            elif n not in got and not any(m["kind"] == "link" for m in P.members):
                out.violate({"kind": "fixture-member-missing", "fixture": name}, observed=n, expected="delivered")
        out.sample = {"fixture": name, "members": len(P.members)}
        return out


def _n_opts(key, val):
    def f(c):
        if c["opts"].get(key) == val:
            return None
        c["opts"][key] = val
        return c
    return f


def _n_single_folder(c):
    if not c["cuts"] or c["cuts"] == [99]:
        return None
    c["cuts"] = [99]
    return c


def _n_empties_last(c):
    ms = c["members"]
    new = [m for m in ms if m["kind"] in ("file", "link")] + [m for m in ms if m["kind"] not in ("file", "link")]
    if new == ms:
        return None
    c["members"] = new
    return c


def _n_attrs(c):
    ch = False
    for m in c["members"]:
        want = {"dir": LY.A_DIR, "link": LY.A_LINK}.get(m["kind"], LY.A_FILE)
        if m["attr"] != want:
            m["attr"] = want
            ch = True
    return c if ch else None


def _n_times(c):
    ch = False
    for m in c["members"]:
        if m["mtime"] is None or m["ctime"] is not None or m["atime"] is not None:
            m["mtime"] = m["mtime"] if m["mtime"] is not None else 132000000000000000
            m["ctime"] = m["atime"] = None
            ch = True
    return c if ch else None


def _n_fcrc(c):
    if c["fcrc"] == [False]:
        return None
    c["fcrc"] = [False]
    return c


def _n_scrc(c):
    if c["scrc"] == ["all"]:
        return None
    c["scrc"] = ["all"]
    return c


def _n_plain_aes(c):
    ch = False
    for chain in c["chains"]:
        for cd in chain:
            if cd["m"] == RC.M_AES and (cd.get("salt") or cd.get("iv") != "0102030405060708090a0b0c0d0e0f10" or cd.get("cycles") == 0x3F):
                cd["salt"], cd["iv"] = "", "0102030405060708090a0b0c0d0e0f10"
                if cd.get("cycles") == 0x3F:
                    cd["cycles"] = 2
                ch = True
    return c if ch else None


def _n_copy(c):
    if all(len(ch) == 1 and ch[0]["m"] == RC.M_COPY for ch in c["chains"]):
        return None
    c["chains"] = [[{"m": RC.M_COPY}]]
    return c


def _n_nonzero(c):
    ch = False
    for m in c["members"]:
        if m["kind"] == "file" and G.content_len(m["data"]) == 0:
            m["data"] = ["hex", "61"]
            ch = True
    return c if ch else None


def _n_no_empty_files(c):
    ch = False
    for m in c["members"]:
        if m["kind"] == "empty":
            m["kind"] = "dir"
            m["attr"] = LY.A_DIR
            ch = True
    return c if ch else None


NEUTRALISERS = [
    ("header", _n_opts("header", "raw")), ("hdr_gap", _n_opts("hdr_gap", 0)), ("chain", _n_copy), ("packpos", _n_opts("packpos", 0)),
    ("pack_crc", _n_opts("pack_crc", False)), ("dummy", _n_opts("dummy", -1)), ("shortcut", _n_opts("defined_shortcut", True)),
    ("numunpack", _n_opts("numunpack", "auto")), ("substreams", _n_opts("substreams", "auto")), ("folders", _n_single_folder),
    ("interleave", _n_empties_last), ("fcrc", _n_fcrc), ("scrc", _n_scrc), ("attrs", _n_attrs), ("times", _n_times), ("zero", _n_nonzero),
    ("emptyfiles", _n_no_empty_files), ("efvec", _n_opts("emptyfile_vec", "auto")), ("startpos", _n_opts("startpos", None)),
    ("archive_props", _n_opts("archive_props", None)), ("aesprops", _n_plain_aes), ("comment", _n_opts("comment", None)),
]


def _fs_safe(want):
    names = [m["name"] for m in want]
    s = set()
    for m in want:
        n = m["name"]
        if "\x00" in n or len(n.encode()) > 900:
            return False
        parts = n.split("/")
        for i in range(1, len(parts)):
            s.add("/".join(parts[:i]))
    # a file may not also be needed as a directory
    for m in want:
        if m["kind"] != "dir" and m["name"] in s:
            return False
    return len(set(names)) == len(names)


CHECK = C06()
