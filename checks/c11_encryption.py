"""C11 - encryption: nothing leaks, nothing is delivered without the right password."""
import functools
import hashlib
import io
import struct

from hypothesis import strategies as st

from gen import basic as G
from ref7z import coders as RC
from ref7z import reader as RR
from vlib import arch, patches
from vlib.runner import Check, Outcome

import py7zr
from py7zr.exceptions import PasswordRequired, UnsupportedCompressionMethodError
from py7zr.io import BytesIOFactory

from checks.c01_roundtrip import is_kf03

PASSWORDS = ["secret", "", "pässwörd", "\U0001f511key", "a", "Pass Word 123", "中文密码", "x" * 40, "re\u0301sume\u0301-42", "\u212bngstro\u0308m"]


def marker(seed, n):
    """incompressible, recognisable plaintext"""
    return hashlib.shake_256(b"plain" + struct.pack("<Q", seed)).digest(n)


def wrong_passwords(pw):
    out = []
    out.append(("different", pw + "x" if pw != "other" else "another"))
    if len(pw) > 1:
        out.append(("prefix", pw[:-1]))
    if pw.swapcase() != pw:
        out.append(("case", pw.swapcase()))
    if pw != "":
        out.append(("empty", ""))
    return out


def windows(data, step=5):
    for off in range(0, max(1, len(data) - 15), step):
        w = data[off:off + 16]
        if len(w) == 16:
            yield off, w


class C11(Check):
    property_id = "C11"
    level = "exploration"
    technique = "generated encrypted archives; byte-level leak search, key-less structural decode by the reference reader, IV/ciphertext uniqueness with the real RNG, wrong/missing password outcomes compared with the plaintext model"
    rule = ("case = 1..4 members with incompressible marker plaintext (24..3000 bytes) and names >= 6 characters x chain ending in 7zAES "
            "(every codec family incl. BCJ/Delta, AES alone, Copy+AES, default filters with a password) x header encryption off / constructor "
            "flag / setter (each also followed by set_encoded_header_mode(True)) x password over Unicode incl. empty, astral, long x 1..2 sessions (create, append) x wrong passwords (different, "
            "proper prefix, case-changed, empty) and no password. Oracle: no 16-byte plaintext window in the archive bytes; every folder's "
            "outermost coder is 7zAES and feeding the packed stream to the inner coders as if unencrypted does not give the plaintext; with "
            "header encryption the next header is an AES-coded EncodedHeader and no member name (UTF-16-LE or UTF-8) occurs in the file; two "
            "archives from the same input and password have different non-zero IVs and different packed streams, all IVs of a run distinct; "
            "no password => PasswordRequired (at open when the header is encrypted, at extraction otherwise); wrong password => some "
            "exception; never a delivered byte string that differs from the original; right password => exact round trip. Every case is "
            "non-trivial (a password is given); distinct by (chain, header mode, password class, sessions).")
    assumptions = ["AES-256-CBC and SHA-256 are taken as sound; only their use is checked", "IV uniqueness sub-check uses the library's real RNG and asserts inequality only",
                   "7zAES key derivation memoised by the harness (pure function)"]
    budget_s = {"quick": 80, "thorough": 1500}
    sandbox_timeout = 120

    def setup(self, env):
        import py7zr.compressor as pc

        if hasattr(pc, "calculate_key") and not getattr(pc.calculate_key, "_memo", False):
            f = functools.lru_cache(maxsize=64)(pc.calculate_key)
            f._memo = True
            pc.calculate_key = f
        env.state["ivs"] = set()
        env.state["k"] = 0

    def strategy(self, env):
        base = st.one_of(G._lzma_family(), G._alt_family(), st.just([]))
        chain = st.one_of(base.map(lambda f: f + [{"id": G.F_AES}]), st.just(None), st.just([{"id": G.F_COPY}, {"id": G.F_AES}]), st.just([{"id": G.F_AES}]))
        name = st.text(st.sampled_from("abcdefghijklmnopqrstuvwxyzäß中0123456789_-"), min_size=6, max_size=14).map(lambda s: s + ".dat")
        member = st.tuples(st.integers(24, 3000), st.integers(0, 1 << 30))
        return st.fixed_dictionaries({
            "filters": chain,
            "filters2": st.one_of(st.none(), chain),
            "header": st.sampled_from(["encoded", "encoded", "raw", "encrypted-flag", "encrypted-setter", "encrypted-flag+enc", "encrypted-setter+enc"]),
            "password": st.one_of(st.sampled_from(PASSWORDS), st.text(min_size=0, max_size=10)),
            "names": st.lists(name, min_size=1, max_size=4, unique=True),
            "members": st.lists(member, min_size=4, max_size=4),
            "appended": st.integers(0, 2),
            "crc0": st.sampled_from([False, False, False, True]),
        })

    def examples(self, env):
        return env.n(70, 1500)

    def enumerated(self, env):
        # every password class x header mode on the two chains where the ciphertext is the only protection
        i = 0
        for pw in PASSWORDS:
            for header in ("encoded", "encrypted-flag", "encrypted-setter", "encrypted-flag+enc", "encrypted-setter+enc"):
                for filt in ([{"id": G.F_COPY}, {"id": G.F_AES}], None):
                    i += 1
                    if not env.mine(i):
                        continue
                    if env.quick and i % 2:
                        continue
                    yield {"filters": filt, "filters2": filt if i % 3 == 0 else None, "header": header, "password": pw,
                           "names": ["member-one.dat", "second-member.dat"], "members": [(200, i), (64, i + 1), (24, i + 2), (333, i + 3)], "appended": 1 if i % 3 == 0 else 0,
                           "crc0": i % 4 == 1}

    def execute(self, case, env):
        out = Outcome()
        pw = case["password"]
        if "\x00" in pw:
            out.skipped = "nul-in-password"
            return out
        filters = case["filters"]
        if filters and is_kf03(filters):
            out.skipped = "KF-03"
            return out
        names = case["names"]
        napp = min(case["appended"], max(0, len(names) - 1)) if case.get("filters2", 1) is not None or case["appended"] else 0
        nfirst = len(names) - napp
        model = [(n, marker(s, ln)) for n, (ln, s) in zip(names, case["members"])]
        if case.get("crc0"):
            # contents forged to CRC-32 0: where the member CRC is the only thing between a wrong key and the caller
            # (Copy+7zAES, 7zAES alone) a digest of zero must still be checked
            model = [(n, G.force_crc(d[:-4] if len(d) > 28 else d, 0)) for n, d in model]
        fam = G.chain_family(filters)
        pwclass = "empty" if pw == "" else ("astral" if any(ord(c) > 0xFFFF for c in pw) else ("nonascii" if any(ord(c) > 127 for c in pw) else "ascii"))
        out.nontrivial = True
        out.descriptor = (fam, case["header"], pwclass, napp > 0, G.chain_family(case.get("filters2")))
        out.label("chain:" + fam, "header:" + case["header"], "pw:" + pwclass, "sessions=%d" % (2 if napp else 1))
        out.sample = {"chain": fam, "header": case["header"], "password": pw, "members": [(n, len(d)) for n, d in model], "appended": napp}
        sig = {"header": case["header"], "codec": fam, "pw": pwclass}
        env.state["k"] += 1
        patches.deterministic_iv(env.seed * 100003 + env.shard * 1009 + env.state["k"])

        def write(real_rng=False):
            if real_rng:
                patches.real_iv()
                # the host program (or a test framework) may seed the global PRNGs: IVs must not come from them
                import random

                random.seed(20240229)
                try:
                    import numpy.random as npr

                    npr.seed(20240229)
                except Exception:
                    pass
            try:
                bio = io.BytesIO()
                z = arch.open_write(bio, filters, pw, case["header"])
                for n, d in model[:nfirst]:
                    z.writestr(d, n)
                z.close()
                if napp:
                    bio.seek(0)
                    # the append session asks for header encryption the same way the first one did (constructor flag or setter)
                    z = arch.open_write(bio, case.get("filters2") if case.get("filters2") is not None else filters, pw, case["header"], mode="a")
                    for n, d in model[nfirst:]:
                        z.writestr(d, n)
                    z.close()
                return bio.getvalue()
            finally:
                if real_rng:
                    patches.deterministic_iv(env.seed * 100003 + env.shard * 1009 + env.state["k"] + 7)

        try:
            data = write()
        except UnsupportedCompressionMethodError:
            out.skipped = "rejected_config"
            return out
        except Exception as e:
            cls, frame = arch.exc_sig(e)
            out.violate(dict(sig, kind="write-raises", exc=cls, frame=frame), observed=repr(e)[:200], expected="encrypted archive written")
            return out
        # ---- 1. raw plaintext windows
        for n, d in model:
            for off, w in windows(d):
                if data.find(w) >= 0:
                    out.violate(dict(sig, kind="plaintext-in-archive"), observed={"member": n, "offset_in_member": off, "at": data.find(w)}, expected="no 16-byte window")
                    break
        # ---- 2. structure seen without trusting py7zr: outermost coder is AES, inner decode of ciphertext is not the plaintext
        try:
            P = RR.parse(data, password=pw)
        except Exception as e:
            out.violate(dict(sig, kind="reference-reader-cannot-read", what=type(e).__name__), observed=repr(e)[:200], expected="well-formed encrypted archive")
            return out
        if P.errors or RR.hard_violations(P):
            out.violate(dict(sig, kind="reference-reader-complains"), observed=(P.errors + RR.hard_violations(P))[:3], expected="well-formed")
        off = 32 + (P.packinfo["packpos"] if P.packinfo else 0)
        ivs = []
        for fi, f in enumerate(P.folders):
            size = P.packinfo["sizes"][fi]
            packed = data[off:off + size]
            off += size
            if f["coders"][0]["m"] != RC.M_AES:
                out.violate(dict(sig, kind="folder-not-encrypted", folder=min(fi, 1)), observed=[c["m"] for c in f["coders"]], expected="7zAES outermost")
                continue
            cyc, salt, iv = RC.aes_props_decode(f["coders"][0]["props"])
            ivs.append(iv)
            # as if unencrypted: run the inner coders on the ciphertext
            cur = packed
            try:
                for ci in range(1, len(f["coders"])):
                    c = f["coders"][ci]
                    cur = RC.decode_stage(c["m"], c["props"], cur, f["unpack_sizes"][ci], None)
                leaked = any(cur.find(w) >= 0 for n, d in model for _, w in list(windows(d))[:40])
            except Exception:
                leaked = False
            if leaked:
                out.violate(dict(sig, kind="compressed-form-decodable-without-key"), observed="inner coders recover plaintext from the packed stream", expected="ciphertext")
        if case["header"].startswith("encrypted"):
            if not P.encoded or not P.header_coders or P.header_coders[0]["m"] != RC.M_AES:
                out.violate(dict(sig, kind="header-not-encrypted"), observed=[c["m"] for c in (P.header_coders or [])], expected="AES-coded EncodedHeader")
            else:
                ivs.append(RC.aes_props_decode(P.header_coders[0]["props"])[2])
            for n, _ in model:
                for enc, lab in ((n.encode("utf-16-le"), "utf16"), (n.encode("utf-8"), "utf8")):
                    if data.find(enc) >= 0:
                        out.violate(dict(sig, kind="name-in-archive", enc=lab), observed=n, expected="names only inside the encrypted header")
        for iv in ivs:
            if not any(iv):
                out.violate(dict(sig, kind="zero-iv"), observed=iv.hex(), expected="random IV")
        # ---- 4. uniqueness with the real RNG
        if env.state["k"] % 3 == 0 or env.replaying:
            try:
                d1, d2 = write(True), write(True)
                P1, P2 = RR.parse(d1, password=pw), RR.parse(d2, password=pw)
                iv1 = [RC.aes_props_decode(f["coders"][0]["props"])[2] for f in P1.folders if f["coders"][0]["m"] == RC.M_AES]
                iv2 = [RC.aes_props_decode(f["coders"][0]["props"])[2] for f in P2.folders if f["coders"][0]["m"] == RC.M_AES]
                for h in (P1, P2):
                    if h.header_coders and h.header_coders[0]["m"] == RC.M_AES:
                        (iv1 if h is P1 else iv2).append(RC.aes_props_decode(h.header_coders[0]["props"])[2])
                allv = iv1 + iv2
                if len(set(allv)) != len(allv):
                    out.violate(dict(sig, kind="iv-reused"), observed=[v.hex() for v in allv], expected="pairwise distinct IVs")
                for v in allv:
                    if v in env.state["ivs"]:
                        out.violate(dict(sig, kind="iv-reused-across-archives"), observed=v.hex(), expected="fresh IV")
                    env.state["ivs"].add(v)
                    if not any(v):
                        out.violate(dict(sig, kind="zero-iv"), observed=v.hex(), expected="random IV")
                body1 = d1[32:32 + struct.unpack("<Q", d1[12:20])[0]]
                body2 = d2[32:32 + struct.unpack("<Q", d2[12:20])[0]]
                if body1 and body1 == body2:
                    out.violate(dict(sig, kind="identical-ciphertext"), observed="same packed bytes", expected="different ciphertext")
                out.count("uniqueness_checks")
            except Exception as e:
                out.violate(dict(sig, kind="uniqueness-check-raises", exc=type(e).__name__), observed=repr(e)[:200], expected="two archives")
        # ---- 5. access
        mdict = dict(model)

        def attempt(p):
            """-> (stage reached, exception class or None, delivered dict)"""
            try:
                z = py7zr.SevenZipFile(io.BytesIO(data), "r", password=p)
            except Exception as e:
                return "open", e, {}
            try:
                try:
                    z.getnames()
                    fac = BytesIOFactory(arch.BIG)
                    z.extractall(factory=fac)
                except Exception as e:
                    return "extract", e, {}
                got = {}
                for k, v in fac.products.items():
                    v.seek(0)
                    got[k] = v.read()
                return "done", None, got
            finally:
                try:
                    z.close()
                except Exception:
                    pass

        stage, exc, got = attempt(pw)
        if exc is not None or got != mdict:
            out.violate(dict(sig, kind="right-password-roundtrip-fails", stage=stage, exc=type(exc).__name__ if exc else None),
                        observed=repr(exc)[:200] if exc else {k: len(v) for k, v in got.items()}, expected="exact round trip")
        stage, exc, got = attempt(None)
        if exc is None:
            out.violate(dict(sig, kind="delivered-without-password"), observed={k: len(v) for k, v in got.items()}, expected="PasswordRequired")
        elif not isinstance(exc, PasswordRequired):
            out.violate(dict(sig, kind="no-password-wrong-exception", exc=type(exc).__name__, stage=stage), observed=repr(exc)[:200], expected="PasswordRequired")
        elif case["header"].startswith("encrypted") and stage != "open":
            out.violate(dict(sig, kind="header-readable-without-password"), observed="open succeeded", expected="PasswordRequired at open")
        for lab, wp in wrong_passwords(pw):
            stage, exc, got = attempt(wp)
            for k, v in got.items():
                if mdict.get(k) != v:
                    out.violate(dict(sig, kind="wrong-password-delivers-different-bytes", wrong=lab), observed={"name": k[:40], "len": len(v)}, expected="error")
            if exc is None:
                out.violate(dict(sig, kind="wrong-password-accepted", wrong=lab), observed={k: len(v) for k, v in got.items()}, expected="an error")
            out.count("wrong_password_attempts")
        return out


CHECK = C11()
