"""C03 - extraction never writes outside the destination directory.

Hostile archives are built by the reference writer (Copy coder, raw header, arbitrary
names/attributes).  Two independent oracles: an audit hook resolving every
filesystem-modifying call against the jail at the moment of the call, and a before/after
snapshot of everything around the destination."""
import io
import itertools
import os
import shutil
import stat

from hypothesis import strategies as st

from ref7z import coders as RC
from ref7z import writer as RW
from vlib import jail
from vlib.runner import Check, Outcome

import py7zr

OUT = "$OUT"  # absolute path of a directory outside the destination (inside the jail)
DESTNAME = "$DEST"  # basename of the destination itself

A_FILE = 0x20 | 0x8000 | ((stat.S_IFREG | 0o644) << 16)
A_DIR = 0x10 | 0x8000 | ((stat.S_IFDIR | 0o755) << 16)
A_LINK = 0x20 | 0x400 | 0x8000 | ((stat.S_IFLNK | 0o777) << 16)

RED_COMPS = ["a", "..", OUT]
RED_NAMES = RED_COMPS + ["/".join(p) for p in itertools.product(RED_COMPS, repeat=2)]
LINK_TEXTS = [".", "..", "../..", "a", "a/..", OUT]
KINDS = [("file", ""), ("dir", "")] + [("link", t) for t in LINK_TEXTS]
RED_ENTRIES = [[n, k, t] for n in RED_NAMES for (k, t) in KINDS]  # 96

FULL_COMPS = ["a", "b", "..", ".", "", OUT, DESTNAME]
DOT_NAMES = []
for k in (1, 2, 3):
    for p in itertools.product(["a", "..", ".", "", OUT], repeat=k):
        DOT_NAMES.append("/".join(p))
DOT_NAMES = sorted(set(DOT_NAMES) - {""})

DESTS = ["abs", "rel", "none"]
OPENS = ["path", "stream"]


def subst(s, out_dir, dest_name):
    return s.replace(OUT, out_dir).replace(DESTNAME, dest_name)


def build_archive(entries, out_dir, dest_name):
    files = []
    for name, kind, text in entries:
        name = subst(name, out_dir, dest_name)
        if kind == "dir":
            files.append({"name": name, "es": True, "attr": A_DIR, "mtime": 132000000000000000})
        elif kind == "emptyfile":
            files.append({"name": name, "es": True, "ef": True, "attr": A_FILE, "mtime": 132000000000000000})
        elif kind == "link":
            files.append({"name": name, "data": subst(text, out_dir, dest_name).encode("utf-8"), "attr": A_LINK,
                          "mtime": 132000000000000000})
        else:
            files.append({"name": name, "data": b"payload:" + name.encode("utf-8", "replace")[:40], "attr": A_FILE,
                          "mtime": 132000000000000000})
    nd = sum(1 for f in files if not f.get("es"))
    folders = [{"coders": [{"m": RC.M_COPY}], "n": nd}] if nd else []
    return RW.build(files, folders, {"header": "raw"}).data


def classify(viol, dest_real, jail_root):
    """coarse root-cause class of an audit violation"""
    ev, lexical, loc = viol
    lex = lexical if os.path.isabs(lexical) else os.path.join(os.getcwd(), lexical)
    lex_norm = os.path.normpath(lex)
    d = os.path.normpath(dest_real)
    if lex_norm == d or lex_norm.startswith(d + os.sep):
        return "symlink-parent"  # lexically inside, resolves outside: an ancestor (or the path itself) is a link
    return "lexical"


class C03(Check):
    property_id = "C03"
    level = "fault_enumeration"
    technique = "exhaustive enumeration of small hostile archives + Hypothesis sampling; audit-hook jail and before/after snapshot"
    rule = ("archives of 1..5 entries built by the reference writer: names over {a,b,..,.,'',absolute outside prefix, destination's own "
            "name}, kinds file/dir/symlink with link texts {., .., ../.., a, a/.., absolute outside}; enumerated: all 1-entry archives "
            "over the reduced (12 names x 8 kinds) and dotted (names <= 3 components over {a,..,.,'',ABS}) alphabets x 12 "
            "configurations, all 2-entry archives over the reduced alphabet (x 3 destination forms in the thorough tier, rotating in quick), the re-pointing slices (link inside when created, re-pointed by a later entry, then used: 27k 3-entry and 15k 4-entry sequences; 1152 six-entry chains in which a link reached through another link changes meaning when that other link is re-pointed), the link-through-link 3-entry "
            "slice; thorough: all 3-entry archives; Hypothesis beyond. x destination absolute/relative/None x opened by path/stream "
            "x destination empty/pre-populated x extractall/extract(targets). Non-trivial: archive has a symlink entry or a '..'/absolute "
            "name; distinct by (entries, destination form, open mode, pre-populated, api).")
    assumptions = ["CPython audit events fire for open/os.mkdir/os.symlink/os.chmod/os.utime/os.remove/os.rename/os.truncate/os.rmdir/os.link",
                   "os.path.realpath at the moment of the call decides the affected location"]
    budget_s = {"quick": 135, "thorough": 1800}
    sandbox_timeout = 30

    def setup(self, env):
        jail.install()
        env.state["n"] = 0

    def exhaustive(self, env):
        return True

    def enumerated(self, env):
        i = 0
        cfgs = [(d, o, p) for d in DESTS for o in OPENS for p in (False, True)]
        for e in RED_ENTRIES:
            for (d, o, p) in cfgs:
                i += 1
                if env.mine(i):
                    yield {"entries": [e], "dest": d, "open": o, "pre": p, "api": "extractall"}
        for n in DOT_NAMES:
            for (k, t) in (("file", ""), ("dir", ""), ("link", ".."), ("link", OUT)):
                for (d, o, p) in cfgs:
                    i += 1
                    if env.mine(i):
                        yield {"entries": [[n, k, t]], "dest": d, "open": o, "pre": p, "api": "extractall" if (i % 3) else "extract"}
        # siblings whose names extend the destination's own name (string-prefix vs path-component containment),
        # alone and as duplicate names (the library appends _N to repeated names)
        pref = ["../" + DESTNAME, "../" + DESTNAME + "/x", "../" + DESTNAME + "_sib/x", "../" + DESTNAME + "ination",
                "a/../../" + DESTNAME + ".bak", "../" + DESTNAME + "2/a", "../" + DESTNAME + "_0", DESTNAME, "a/..", ".", "../" + DESTNAME + "/.."]
        for n in pref:
            for (k, t) in (("file", ""), ("dir", ""), ("link", "."), ("link", "..")):
                for (d, o, p) in cfgs:
                    i += 1
                    if env.mine(i):
                        yield {"entries": [[n, k, t]], "dest": d, "open": o, "pre": p, "api": "extractall"}
                    for (k2, t2) in (("file", ""), ("dir", ""), ("link", "..")):
                        i += 1
                        if env.mine(i) and p is False:
                            yield {"entries": [[n, k, t], [n, k2, t2]], "dest": d, "open": o, "pre": p, "api": "extractall"}
        # link-through-link slice: a link, an entry whose name passes through it, then anything
        third = [e for e in RED_ENTRIES if OUT not in e[0] and OUT not in e[2]] + [[n, k, t] for n in ("b", "b/a", "b/b", "a/b/a", "b/..") for (k, t) in KINDS]
        for t1 in LINK_TEXTS:
            for (k2, t2) in KINDS:
                for n2 in ("a/a", "a/..", "a/b"):
                    for e3 in third:
                        i += 1
                        if env.mine(i):
                            yield {"entries": [["a", "link", t1], [n2, k2, t2], e3], "dest": DESTS[i % 3], "open": OPENS[(i // 3) % 2],
                                   "pre": False, "api": "extractall"}
        # links that are inside when created and are re-pointed by a LATER entry, then used (3 entries), and the same with a
        # directory / second link in between (4 entries, first entry fixed to the directory 'a')
        rp3 = [[n, k, t] for n in ("l", "x", "./l", "l/f", "l/sub/f") for (k, t) in (("link", "x/.."), ("link", "x/../f2"), ("link", "."), ("file", ""),
                                                                                    ("emptyfile", ""))]
        for e1 in rp3:
            for e2 in rp3:
                for e3 in rp3:
                    i += 1
                    if env.mine(i):
                        yield {"entries": [e1, e2, e3], "dest": DESTS[i % 3], "open": OPENS[(i // 3) % 2], "pre": False, "api": "extractall"}
        rp4 = [[n, k, t] for n in ("a", "m", "l", "l/f", "./m") for (k, t) in (("dir", ""), ("link", "a"), ("link", "m/.."), ("link", "."), ("file", ""))]
        for e2 in rp4:
            for e3 in rp4:
                for e4 in rp4:
                    for e5 in ([None] if env.quick else [None] + rp4):
                        i += 1
                        if env.mine(i):
                            ents = [["a", "dir", ""], e2, e3, e4] + ([e5] if e5 else [])
                            yield {"entries": ents, "dest": DESTS[i % 3], "open": OPENS[(i // 3) % 2], "pre": False, "api": "extractall"}
        # a regular file later replaced by a link that is reached under a different path string (through a directory link)
        rp5 = [[n, k, t] for n in ("d", "d/f", "x") for (k, t) in (("link", "a"), ("link", "../x/.."), ("link", "."), ("link", "x/.."), ("file", ""), ("dir", ""))]
        for e2 in rp5:
            for e3 in rp5:
                for e4 in rp5:
                    i += 1
                    if env.mine(i):
                        yield {"entries": [["a/f", "file", ""], e2, e3, e4], "dest": DESTS[i % 3], "open": OPENS[(i // 3) % 2], "pre": False, "api": "extractall"}
        # destination None with the change of directory made after the archive was opened
        for e in RED_ENTRIES:
            for o in OPENS:
                i += 1
                if env.mine(i):
                    yield {"entries": [e], "dest": "none-late", "open": o, "pre": False, "api": "extractall"}
        for t1 in LINK_TEXTS:
            for n2 in ("a/x", "a/a", "a/../x", "a"):
                for (k2, t2) in (("file", ""), ("dir", ""), ("link", ".."), ("emptyfile", "")):
                    for o in OPENS:
                        i += 1
                        if env.mine(i):
                            yield {"entries": [["a", "link", t1], [n2, k2, t2]], "dest": "none-late", "open": o, "pre": False, "api": "extractall"}
        # chains: a link m that passes through another link l; l is re-pointed later (under the same or an equivalent name), then
        # m is used again - what m means changed although m itself was never touched (6 entries)
        for t1 in ("a", ".", "a/.."):
            for suf in ("/..", "", "/."):
                for warm in (None, ["m/x", "file", ""]):
                    for n4 in ("l", "./l"):
                        for t4 in (".", "..", "a", "a/.."):
                            for n5 in ("m/y", "m/x"):
                                for (k5, t5) in (("file", ""), ("emptyfile", ""), ("dir", ""), ("link", ".")):
                                    i += 1
                                    if env.mine(i):
                                        ents = [["a/f", "file", ""], ["l", "link", t1], ["m", "link", "l" + suf]] + ([warm] if warm else []) + \
                                               [[n4, "link", t4], [n5, k5, t5]]
                                        yield {"entries": ents, "dest": DESTS[i % 3], "open": OPENS[(i // 3) % 2], "pre": False, "api": "extractall"}
        # all pairs over the reduced alphabet come last: the broadest and least targeted slice is what a tight budget may cut
        j = 0
        for e1 in RED_ENTRIES:
            for e2 in RED_ENTRIES:
                j += 1
                for di, d in enumerate(DESTS):
                    if env.quick and di != j % 3:
                        continue  # quick: one destination form per pair (rotating); thorough: all three
                    i += 1
                    if env.mine(i):
                        yield {"entries": [e1, e2], "dest": d, "open": OPENS[(j + di) % 2], "pre": bool((j // 2 + di) % 2), "api": "extractall"}
        if not env.quick:
            for e1 in RED_ENTRIES:
                for e2 in RED_ENTRIES:
                    for e3 in RED_ENTRIES:
                        i += 1
                        if env.mine(i):
                            yield {"entries": [e1, e2, e3], "dest": DESTS[i % 3], "open": OPENS[(i // 3) % 2], "pre": bool((i // 6) % 2),
                                   "api": "extractall"}

    def strategy(self, env):
        comp = st.sampled_from(FULL_COMPS)
        name = st.lists(comp, min_size=1, max_size=4).map("/".join).filter(lambda s: s != "")
        earlier = st.shared(st.lists(name, min_size=1, max_size=5), key="names")
        text = st.one_of(st.sampled_from(LINK_TEXTS + [OUT + "/x", "/", "../" + DESTNAME, "b", "a/../.."]), name,
                         name.map(lambda n: n + "/.."))
        entry = st.one_of(
            name.map(lambda n: [n, "file", ""]),
            name.map(lambda n: [n, "dir", ""]),
            name.map(lambda n: [n, "emptyfile", ""]),
            st.tuples(name, text).map(lambda t: [t[0], "link", t[1]]),
            st.tuples(name, text).map(lambda t: [t[0], "link", t[1]]),
        )
        return st.fixed_dictionaries({"entries": st.lists(entry, min_size=1, max_size=5), "dest": st.sampled_from(DESTS + ["none-late"]),
                                      "open": st.sampled_from(OPENS), "pre": st.booleans(),
                                      "api": st.sampled_from(["extractall", "extractall", "extract"])})

    def examples(self, env):
        return env.n(300, 20000)

    def execute(self, case, env):
        out = Outcome()
        entries = case["entries"]
        out.nontrivial = any(k == "link" or ".." in n.split("/") or n.startswith("/") or OUT in n for n, k, t in entries)
        out.label("n=%d" % len(entries), "dest:" + case["dest"], "open:" + case["open"], "api:" + case["api"],
                  "links=%d" % sum(1 for e in entries if e[1] == "link"))
        env.state["n"] += 1
        root = os.path.join(env.scratch, "jl%d" % env.state["n"])
        J = os.path.join(root, "j")
        dest = os.path.join(J, "dest")
        out_dir = os.path.join(J, "out")
        os.makedirs(dest)
        os.makedirs(out_dir)
        os.makedirs(os.path.join(J, "sib"))
        for p, c in ((os.path.join(J, "outside.txt"), b"outside"), (os.path.join(J, "sib", "keep.txt"), b"keep"),
                     (os.path.join(out_dir, "x"), b"outx"), (os.path.join(root, "above.txt"), b"above"), (os.path.join(J, "f"), b"outside-f"),
                     (os.path.join(J, "f2"), b"outside-f2")):
            with open(p, "wb") as f:
                f.write(c)
        if case["pre"]:
            os.makedirs(os.path.join(dest, "a", "b"))
            with open(os.path.join(dest, "a", "f"), "wb") as f:
                f.write(b"pre")
            with open(os.path.join(dest, "b"), "wb") as f:
                f.write(b"preb")
        try:
            data = build_archive(entries, out_dir, "dest")
        except (ValueError, UnicodeError):
            shutil.rmtree(root, ignore_errors=True)
            out.skipped = "unbuildable"
            return out
        arc = os.path.join(J, "arc.7z")
        with open(arc, "wb") as f:
            f.write(data)
        before = jail.snapshot(root, exclude=dest)
        cwd = os.getcwd()
        try:
            late = False
            if case["dest"] == "abs":
                os.chdir(J)
                path = dest
            elif case["dest"] == "rel":
                os.chdir(J)
                path = "dest"
            elif case["dest"] == "none-late":
                # the archive is opened in the jail's parent, the process moves into the destination only then: "None" means the
                # working directory at the time of extraction
                os.chdir(J)
                path = None
                late = True
            else:
                os.chdir(dest)
                path = None
            a = jail.activate(dest, root)
            exc = None
            try:
                src = arc if case["open"] == "path" else io.BytesIO(data)
                with py7zr.SevenZipFile(src, "r") as z:
                    if late:
                        os.chdir(dest)
                    if case["api"] == "extractall":
                        z.extractall(path)
                    else:
                        names = z.getnames()
                        z.extract(path, targets=names[: max(1, len(names) - 1)])
            except Exception as e:  # "either raises or completes"
                exc = type(e).__name__
            finally:
                jail.deactivate()
            out.label("outcome:" + ("raises" if exc else "completes"))
            if a.errors:
                raise RuntimeError("audit hook error: %r" % a.errors[:2])
            seen = set()
            for v in a.violations:
                via = classify(v, dest, root)
                key = (v[0], via)
                if key in seen:
                    continue
                seen.add(key)
                out.violate({"kind": "escape", "oracle": "audit", "via": via, "op": v[0]},
                            observed={"event": v[0], "path": v[1].replace(root, "$ROOT"), "resolves_to": v[2].replace(root, "$ROOT"), "raised": exc},
                            expected="every modified location resolves under $ROOT/j/dest")
            os.chdir(cwd)
            after = jail.snapshot(root, exclude=dest)
            d = jail.diff_snap(before, after)
            if d:
                k, b0, b1 = d[0]
                # attribute the snapshot difference to the same root-cause class as the audit did, if it saw it
                vias = {classify(v, dest, root) for v in a.violations}
                via = "symlink-parent" if vias == {"symlink-parent"} else ("lexical" if vias else "unseen-by-audit")
                out.violate({"kind": "escape", "oracle": "snapshot", "via": via, "change": "created" if b0 is None else ("removed" if b1 is None else "modified")},
                            observed={"path": k, "before": b0, "after": b1, "raised": exc}, expected="surroundings unchanged")
        finally:
            os.chdir(cwd)
            shutil.rmtree(root, ignore_errors=True)
        out.sample = {"entries": entries, "dest": case["dest"], "open": case["open"], "pre": case["pre"], "api": case["api"]}
        return out


CHECK = C03()
