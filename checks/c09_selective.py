"""C09 - selective extraction equals the restriction of full extraction."""
import io
import itertools
import os
import shutil
import stat

from hypothesis import strategies as st

from gen import basic as G
from gen import seeds as S
from ref7z import coders as RC
from ref7z import writer as RW
from vlib import arch
from vlib.runner import Check, Outcome

import py7zr
from py7zr.io import BytesIOFactory

# name pool: prefix-free except along '/' boundaries
POOL = ["a.txt", "b.bin", "d", "d/x", "d/y.txt", "d/sub", "d/sub/z", "e", "e/f", "g", "h.dat", "k/l/m"]
DIRS = {"d", "d/sub", "e"}
ABSENT = ["zz", "d/nope", "a.txt.bak", "q/r", "y", "", "/"]  # never a string prefix of a pool name; the empty target names nothing


def content(name, seed):
    n = (len(name) * 37 + seed * 11) % 400
    return G.expand(["gen", ["text", "random", "period"][seed % 3], n, seed * 131 + len(name)])


def build_archive(spec):
    """spec: {"how": "py-solid"|"py-multi"|"ref", "names": [...], "empty": [...names stored as empty files], "cuts": [...], "chain": idx, "seed": n,
              "order": "tree"|"files-first"}  -> (bytes, model [(name, kind, data)], nfolders)"""
    names = spec["names"]
    empty = set(spec.get("empty", []))
    model = []
    for n in names:
        if n in DIRS:
            model.append((n, "dir", b""))
        elif n in empty:
            model.append((n, "empty", b""))
        else:
            model.append((n, "file", content(n, spec.get("seed", 0))))
    if spec.get("order") == "files-first":
        model = [m for m in model if m[1] == "file"] + [m for m in model if m[1] != "file"]
    how = spec["how"]
    chains_py = [None, [{"id": G.F_COPY}], [{"id": G.F_LZMA2, "preset": 0}], [{"id": G.F_BZIP2}], [{"id": G.F_ZSTD, "level": 1}], [{"id": G.F_DEFLATE}]]
    if how.startswith("py"):
        import tempfile

        tmp = tempfile.mkdtemp(prefix="c9src")
        try:
            bio = io.BytesIO()
            cuts = spec.get("cuts") or [len(model)]
            if how == "py-solid":
                cuts = [len(model)]
            i = 0
            k = 0
            first = True
            while i < len(model) or first:
                part = model[i:i + max(1, cuts[k % len(cuts)])]
                bio.seek(0)
                with py7zr.SevenZipFile(bio, "w" if first else "a", filters=chains_py[(spec.get("chain", 0) + k) % len(chains_py)]) as z:
                    for (n, kind, data) in part:
                        if kind == "dir":
                            p = os.path.join(tmp, "dir%d" % i)
                            os.makedirs(p, exist_ok=True)
                            z.write(p, n)
                        else:
                            z.writestr(data, n)
                i += len(part)
                k += 1
                first = False
                if not part:
                    break
            data = bio.getvalue()
        finally:
            shutil.rmtree(tmp, ignore_errors=True)
        model = [(n, "file" if k == "empty" else k, d) for (n, k, d) in model]
        return data, model
    files = []
    for (n, kind, d) in model:
        if kind == "dir":
            files.append(S.D(n))
        elif kind == "empty":
            files.append(S.E(n))
        else:
            files.append(S.F(n, d))
    nd = sum(1 for m in model if m[1] == "file")
    chains = [[{"m": RC.M_COPY}], [{"m": RC.M_LZMA2}], [{"m": RC.M_BZIP2}], [{"m": RC.M_LZMA}]]
    cuts = spec.get("cuts") or [nd]
    folders = []
    i = 0
    k = 0
    while i < nd:
        n = max(1, min(cuts[k % len(cuts)], nd - i))
        fo = {"coders": chains[(spec.get("chain", 0) + k) % len(chains)], "n": n}
        crcs = spec.get("crcs", "member")
        if crcs == "folder":  # one CRC for the whole folder, none per member: skipping a member must still advance the decoder
            fo.update(fcrc=True, scrc="none")
        elif crcs == "none":
            fo.update(scrc="none")
        folders.append(fo)
        i += n
        k += 1
    return RW.build(files, folders, {"header": "raw"}).data, model


def expected_selection(model, targets, recursive):
    names = [m[0] for m in model]
    T = {t[:-1] if t.endswith("/") else t for t in targets}
    sel = []
    for (n, kind, d) in model:
        if n in T:
            sel.append(n)
        elif recursive and any(n.startswith(t + "/") for t in T if t in names):
            sel.append(n)
    return sel


def tree_of(root):
    out = {}
    for dp, dn, fn in os.walk(root):
        for n in dn:
            out[os.path.relpath(os.path.join(dp, n), root)] = ("dir", None)
        for n in fn:
            p = os.path.join(dp, n)
            with open(p, "rb") as f:
                out[os.path.relpath(p, root)] = ("file", f.read())
    return out


class C09(Check):
    property_id = "C09"
    level = "exploration"
    technique = "exhaustive target subsets on small archives (solid, multi-folder by append, reference-written with interleaved empties) + Hypothesis; extract(T) compared with the restriction of extractall on a fresh object; destination tree snapshot"
    rule = ("archive = members from a prefix-free name pool (files, directories, empty files) laid out as one solid folder, as 2-3 folders "
            "(append sessions, different codecs) or by the reference writer (cuts, empties interleaved or last); T = subset of the names plus "
            "absent names, given as list or set, each with or without trailing '/', recursive False/True, output to a directory or to a "
            "BytesIOFactory, opened by path or stream; all subsets enumerated for three fixed 6-member archives, sampled otherwise. Oracle: "
            "delivered members = T restricted to the archive (plus everything under a named directory when recursive), bytes equal those of "
            "extractall on a fresh object, nothing else created except ancestor directories. Non-trivial: a selected member preceded in its "
            "folder by an unselected non-empty one, or T spans >= 2 folders, or skips a whole folder; distinct by (archive, T, options).")
    assumptions = ["names are prefix-free except along '/' (the property's quantifier), so the documented startswith matching of recursive=True coincides with 'beneath'"]
    budget_s = {"quick": 70, "thorough": 1200}
    sandbox_timeout = 60

    def setup(self, env):
        env.state["k"] = 0
        env.state["cache"] = {}

    def enumerated(self, env):
        fixed = [
            {"how": "py-solid", "names": ["a.txt", "b.bin", "d", "d/x", "d/y.txt", "g"], "chain": 2, "seed": 1},
            {"how": "py-multi", "names": ["a.txt", "b.bin", "d", "d/x", "d/y.txt", "g"], "cuts": [2, 3, 1], "chain": 1, "seed": 2},
            {"how": "ref", "names": ["a.txt", "d", "d/x", "e", "d/y.txt", "g"], "empty": ["e"], "cuts": [1, 2, 1], "chain": 0, "seed": 3},
            {"how": "ref", "names": ["a.txt", "b.bin", "d/x", "h.dat", "d/sub/z", "g"], "empty": ["h.dat"], "cuts": [5], "chain": 1, "seed": 4},
            {"how": "ref", "names": ["a.txt", "b.bin", "d/x", "g"], "cuts": [4], "chain": 1, "seed": 5, "crcs": "folder"},
            {"how": "ref", "names": ["a.txt", "b.bin", "d/x", "g"], "cuts": [2, 2], "chain": 0, "seed": 6, "crcs": "none"},
        ]
        i = 0
        for spec in fixed:
            names = spec["names"]
            for r in range(len(names) + 1):
                for sub in itertools.combinations(range(len(names)), r):
                    for (as_set, slash, recursive, to) in itertools.product((False, True), (False, True), (False, True), ("factory", "path")):
                        i += 1
                        if not env.mine(i):
                            continue
                        t = [names[j] + ("/" if slash and j % 2 == 0 else "") for j in sub] + (["zz"] if (r + len(names)) % 2 else []) + \
                            ([["", "/"][i % 2]] if i % 5 == 0 else [])  # an empty target names nothing (also with recursive)
                        yield {"spec": spec, "targets": t, "as_set": as_set, "recursive": recursive, "to": to, "open": "path" if i % 3 else "stream"}

    def strategy(self, env):
        spec = st.builds(
            lambda names, how, empty_idx, cuts, chain, seed, order: {"how": how, "names": _fix_names(names), "empty": [n for j, n in enumerate(names) if j in empty_idx and n not in DIRS],
                                                                     "cuts": cuts, "chain": chain, "seed": seed, "order": order, "crcs": ["member", "member", "folder", "none"][seed % 4]},
            st.lists(st.sampled_from(POOL), min_size=1, max_size=9, unique=True), st.sampled_from(["py-solid", "py-multi", "ref", "ref"]),
            st.sets(st.integers(0, 8), max_size=2), st.lists(st.integers(1, 4), min_size=1, max_size=3), st.integers(0, 5), st.integers(0, 1000),
            st.sampled_from(["tree", "files-first"]))
        return st.builds(lambda spec, idx, absent, slashes, as_set, recursive, to, how: {
            "spec": spec, "targets": [spec["names"][j % len(spec["names"])] + ("/" if (j in slashes) else "") for j in idx] + absent,
            "as_set": as_set, "recursive": recursive, "to": to, "open": how},
            spec, st.lists(st.integers(0, 8), max_size=6, unique=True), st.lists(st.sampled_from(ABSENT), max_size=2, unique=True),
            st.sets(st.integers(0, 8), max_size=3), st.booleans(), st.booleans(), st.sampled_from(["factory", "path"]), st.sampled_from(["path", "stream"]))

    def examples(self, env):
        return env.n(400, 8000)

    def execute(self, case, env):
        out = Outcome()
        spec = case["spec"]
        key = repr(sorted(spec.items(), key=lambda kv: kv[0]))
        cache = env.state["cache"]
        if key not in cache:
            if len(cache) > 50:
                cache.clear()
            data, model = build_archive(spec)
            # E: full extraction on a fresh object
            with py7zr.SevenZipFile(io.BytesIO(data)) as z:
                fac = BytesIOFactory(arch.BIG)
                names = z.getnames()
                folders_of = {}
                for f in z.files:
                    folders_of[f.filename] = id(f.folder) if f.folder is not None else None
                z.extractall(factory=fac)
                E = {}
                for k, v in fac.products.items():
                    v.seek(0)
                    E[k] = v.read()
            cache[key] = (data, model, names, E, folders_of)
        data, model, names, E, folders_of = cache[key]
        if names != [m[0] for m in model] or any(E.get(n) != d for (n, k, d) in model if k != "dir"):
            out.skipped = "base-archive-not-read-correctly(C01/C06)"
            return out
        targets = list(case["targets"])
        want = expected_selection(model, targets, case["recursive"])
        kinds = dict((n, k) for (n, k, d) in model)
        # non-triviality
        sel = set(want)
        nontriv = False
        seen_unselected_data = {}
        for (n, k, d) in model:
            fo = folders_of.get(n)
            if fo is None:
                continue
            if n in sel and seen_unselected_data.get(fo):
                nontriv = True
            if n not in sel and d:
                seen_unselected_data[fo] = True
        folders_sel = {folders_of[n] for n in sel if folders_of.get(n) is not None}
        folders_all = {v for v in folders_of.values() if v is not None}
        if len(folders_sel) >= 2 or (folders_sel and folders_all - folders_sel):
            nontriv = True
        out.nontrivial = nontriv
        out.descriptor = (key, tuple(sorted(targets)), case["as_set"], case["recursive"], case["to"], case["open"])
        out.label("how:" + spec["how"], "to:" + case["to"], "recursive" if case["recursive"] else "exact", "set" if case["as_set"] else "list",
                  "folders=%d" % len(folders_all), "selected=%d" % len(want))
        out.sample = {"archive": spec, "targets": targets, "recursive": case["recursive"], "to": case["to"], "expected": want}
        env.state["k"] += 1
        work = env.tmpdir("c9-")  # unique: a replacement sandbox child must not collide with a killed one
        sig = {"to": case["to"], "recursive": case["recursive"], "how": spec["how"]}
        try:
            T = set(targets) if case["as_set"] else targets
            if case["open"] == "path":
                ap = os.path.join(work, "a.7z")
                with open(ap, "wb") as f:
                    f.write(data)
                src = ap
            else:
                src = io.BytesIO(data)
            dest = os.path.join(work, "out")
            try:
                with py7zr.SevenZipFile(src) as z:
                    if case["to"] == "factory":
                        fac = BytesIOFactory(arch.BIG)
                        z.extract(targets=T, recursive=case["recursive"], factory=fac)
                        got = {}
                        for k, v in fac.products.items():
                            v.seek(0)
                            got[k] = v.read()
                    else:
                        z.extract(dest, targets=T, recursive=case["recursive"])
            except Exception as e:
                cls, frame = arch.exc_sig(e)
                out.violate(dict(sig, kind="extract-raises", exc=cls, frame=frame), observed=repr(e)[:200], expected="selection extracted")
                return out
            if case["to"] == "factory":
                want_files = {n for n in want if kinds[n] != "dir"}
                if set(got) != want_files:
                    out.violate(dict(sig, kind="delivered-set-differs", missing=bool(want_files - set(got)), extra=bool(set(got) - want_files)),
                                observed={"got": sorted(got), "targets": targets}, expected=sorted(want_files))
                for n in want_files & set(got):
                    if got[n] != E[n]:
                        out.violate(dict(sig, kind="bytes-differ-from-extractall"), observed={"name": n, "len": len(got[n])}, expected={"len": len(E[n])})
            else:
                tree = tree_of(dest) if os.path.isdir(dest) else {}
                exp = {}
                for n in want:
                    parts = n.split("/")
                    for i in range(1, len(parts)):
                        exp["/".join(parts[:i])] = ("dir", None)
                    exp[n] = ("dir", None) if kinds[n] == "dir" else ("file", E[n])
                if set(tree) != set(exp):
                    out.violate(dict(sig, kind="created-paths-differ", missing=bool(set(exp) - set(tree)), extra=bool(set(tree) - set(exp))),
                                observed={"created": sorted(tree), "targets": targets}, expected=sorted(exp))
                for n in set(tree) & set(exp):
                    if tree[n][0] != exp[n][0]:
                        out.violate(dict(sig, kind="created-kind-differs"), observed={"name": n, "got": tree[n][0]}, expected=exp[n][0])
                    elif tree[n][0] == "file" and tree[n][1] != exp[n][1]:
                        out.violate(dict(sig, kind="bytes-differ-from-extractall"), observed={"name": n, "len": len(tree[n][1])}, expected={"len": len(exp[n][1])})
        finally:
            shutil.rmtree(work, ignore_errors=True)
        return out


def _fix_names(names):
    """a member below a directory of the pool needs no directory entry, but a pool directory must not also be used as a file prefix"""
    return list(names)


CHECK = C09()
