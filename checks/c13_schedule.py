"""C13 - extraction results do not depend on scheduling; worker errors reach the caller."""
import io
import os
import shutil
import threading

from hypothesis import strategies as st

from gen import basic as G
from ref7z import reader as RR
from vlib import arch, patches
from vlib.runner import Check, HarnessError, Outcome
from vlib.sched import Scheduler, next_schedule

import py7zr
from py7zr.io import Py7zIO, WriterFactory

CHAINS = [[{"id": G.F_COPY}], [{"id": G.F_LZMA2, "preset": 0}], [{"id": G.F_BZIP2}], [{"id": G.F_ZSTD, "level": 1}], [{"id": G.F_DEFLATE}], [{"id": G.F_LZMA, "preset": 0}]]
_cache = {}


def build(spec):
    """spec: {"folders": [[size,...],...], "chains": [idx...], "seed": n} -> (bytes, model {name: bytes}, folder_of {name: idx}, pack ranges)"""
    key = repr(spec)
    if key in _cache:
        return _cache[key]
    bio = io.BytesIO()
    model = {}
    folder_of = {}
    for fi, sizes in enumerate(spec["folders"]):
        bio.seek(0)
        with py7zr.SevenZipFile(bio, "w" if fi == 0 else "a", filters=CHAINS[spec["chains"][fi % len(spec["chains"])] % len(CHAINS)]) as z:
            z.set_encoded_header_mode(False)
            for mi, n in enumerate(sizes):
                name = "f%d/m%d.bin" % (fi, mi)
                if spec.get("shared"):
                    # every folder writes into the same directory, which has no entry of its own in the archive
                    name = "sh/x/f%dm%d.bin" % (fi, mi)
                if spec.get("longname") and mi == 0:
                    # a member name of tens of thousands of characters: an error object that carries it no longer fits a pipe buffer
                    name = "f%d/%s%d.bin" % (fi, "\u4e2d" * int(spec["longname"]), mi)
                data = G.expand(["gen", ["random", "text", "period"][(fi + mi) % 3], n, spec.get("seed", 0) * 97 + fi * 7 + mi])
                z.writestr(data, name)
                model[name] = data
                folder_of[name] = fi
    data = bio.getvalue()
    with py7zr.SevenZipFile(io.BytesIO(data)) as z:
        pi = z.header.main_streams.packinfo
        starts = [32 + pi.packpos + p for p in pi.packpositions]
    ranges = [(starts[i], starts[i + 1]) for i in range(len(starts) - 1)]
    if len(_cache) > 40:
        _cache.clear()
    _cache[key] = (data, model, folder_of, ranges)
    return _cache[key]


_AUDIT = {"sched": None, "root": None, "installed": False}


def _audit_gate(event, args):
    """file-system modifications below the output directory are scheduling points when extraction writes to disk"""
    s = _AUDIT["sched"]
    if s is None or not args:
        return
    try:
        if event in ("os.mkdir", "os.symlink", "os.utime", "os.chmod", "os.remove", "os.rename"):
            path = args[1] if event == "os.symlink" else args[0]
        elif event == "open":
            path, flags = args[0], args[2] if len(args) > 2 else 0
            if not isinstance(flags, int) or not flags & (os.O_WRONLY | os.O_RDWR | os.O_CREAT):
                return
        else:
            return
        path = os.fspath(path) if not isinstance(path, int) else ""
        if isinstance(path, bytes):
            path = path.decode("utf-8", "replace")
        if not path.startswith(_AUDIT["root"]):
            return
    except Exception:
        return
    s.point((event, os.path.relpath(path, _AUDIT["root"])))


def install_audit_gate():
    if not _AUDIT["installed"]:
        import sys

        sys.addaudithook(_audit_gate)
        _AUDIT["installed"] = True


class GateIO(Py7zIO):
    def __init__(self, name, sched, log):
        self.name, self.sched, self.log = name, sched, log
        self.buf = io.BytesIO()

    def write(self, s):
        self.sched.point(("write", self.name))
        self.log.append(("w", self.name, len(s), threading.current_thread().name))
        return self.buf.write(s)

    def read(self, size=None):
        return self.buf.read(size)

    def seek(self, offset, whence=0):
        return self.buf.seek(offset, whence)

    def flush(self):
        pass

    def size(self):
        return self.buf.getbuffer().nbytes


class GateFactory(WriterFactory):
    def __init__(self, sched):
        self.sched = sched
        self.products = {}
        self.log = []

    def create(self, filename):
        self.sched.point(("create", filename))
        p = GateIO(filename, self.sched, self.log)
        self.products[filename] = p
        return p


class C13(Check):
    property_id = "C13"
    level = "exploration"
    technique = "harness-owned deterministic scheduler gating worker threads at every output event (factory create/write, or - for output to disk - every mkdir/open-for-write/utime/chmod audit event below the destination); depth-first enumeration of all schedules for small cases and Hypothesis-drawn schedules beyond; thread / process / sequential modes compared; one folder damaged at each position"
    rule = ("archive = 2..4 folders (append sessions; Copy, LZMA2, BZip2, ZStandard, Deflate, LZMA) x 1..3 members each; extraction chunk limit "
            "patched to 48..200 bytes so that a member is several output writes; execution mode threads (path-opened), processes (mp=True, "
            "to a directory) or sequential (stream-opened); intact or exactly one folder damaged (a byte of its packed stream inverted) at each "
            "position; output to a gated WriterFactory or to a directory; extractall or extract(T) with selections that leave the first or a middle folder without worker. Worker threads are parked at every create/write of the factory and "
            "released one at a time according to the schedule; for cases with few gate points all schedules are enumerated depth-first "
            "(capped), otherwise schedules are drawn by Hypothesis. k independent SevenZipFile objects on the same file extracted "
            "concurrently are checked too; testzip() instead of extraction in all three modes, also with member names of 30000 characters (a "
            "worker's error object carries the name). Oracle: every schedule and mode delivers exactly the model for intact archives; with a damaged "
            "folder extract/extractall raises in every mode and schedule, and whatever was delivered for undamaged folders is correct. "
            "Non-trivial: >= 2 workers with >= 2 gate points each and a schedule that switches worker at least once; distinct by (archive "
            "shape, damage position, mode, schedule).")
    assumptions = ["the harness owns the order of output events, not arbitrary bytecode interleavings inside py7zr", "process mode cannot be scheduled, only repeated and compared"]
    budget_s = {"quick": 75, "thorough": 1500}
    sandbox_timeout = 120

    def setup(self, env):
        env.state["k"] = 0

    def strategy(self, env):
        spec = st.fixed_dictionaries({"folders": st.lists(st.lists(st.integers(1, 400), min_size=1, max_size=3), min_size=2, max_size=4),
                                      "chains": st.lists(st.integers(0, 5), min_size=1, max_size=4), "seed": st.integers(0, 99), "shared": st.booleans()})
        return st.fixed_dictionaries({"arch": spec, "mode": st.sampled_from(["threads", "threads", "threads", "process", "sequential"]),
                                      "damage": st.one_of(st.none(), st.none(), st.integers(0, 3)), "out": st.sampled_from(["factory", "factory", "path"]),
                                      "chunk": st.sampled_from([48, 100, 200]), "sched": st.one_of(st.lists(st.integers(0, 3), max_size=40), st.lists(st.integers(0, 3), max_size=40), st.just("free")),
                                      "concurrent_objects": st.sampled_from([1, 1, 1, 3]),
                                      "targets": st.one_of(st.none(), st.none(), st.lists(st.integers(0, 11), min_size=1, max_size=4, unique=True))})

    def examples(self, env):
        return env.n(250, 5000)

    def enumerated(self, env):
        k = 9000
        for names in (["d/a", "d/a", "d/a_0"], ["a", "a_0", "a"], ["x", "x", "x"], ["a", "a", "a_0", "a_1"]):
            for outk in ("factory", "path"):
                k += 1
                if env.mine(k):
                    yield {"op": "dups", "names": names, "out": outk}
        big = {"folders": [[3000, 3000, 3000], [3000, 3000, 3000], [3000, 3000, 3000]], "chains": [0, 1], "seed": 9}
        for rep in range(3):
            for outk in ("path", "factory"):
                k += 1
                if env.mine(k):
                    yield {"arch": dict(big, seed=9 + rep), "mode": "threads", "damage": None, "out": outk, "chunk": 100, "sched": "free", "concurrent_objects": 1,
                           "targets": [1, 2, 4, 5, 7, 8]}
        # small cases explored depth-first over all schedules
        shapes = [{"folders": [[60, 30], [50]], "chains": [0], "seed": 1}, {"folders": [[100], [100]], "chains": [0, 1], "seed": 2},
                  {"folders": [[40], [40], [40]], "chains": [0, 2, 1], "seed": 3}, {"folders": [[90, 10], [20, 70]], "chains": [1, 0], "seed": 4}]
        i = 0
        for sp in shapes:
            for dmg in [None] + list(range(len(sp["folders"]))):
                i += 1
                if env.mine(i):
                    yield {"arch": sp, "mode": "threads", "damage": dmg, "out": "factory", "chunk": 64, "sched": "dfs", "concurrent_objects": 1}
                # selections that leave the first / a middle folder without worker
                nm = sum(len(f) for f in sp["folders"])
                for tsel in ([nm - 1], [len(sp["folders"][0])], list(range(len(sp["folders"][0]), nm))):
                    for mode in ("threads", "process", "sequential"):
                        i += 1
                        if env.mine(i):
                            yield {"arch": sp, "mode": mode, "damage": dmg, "out": "factory" if mode != "process" else "path", "chunk": 64, "sched": [1, 0, 1],
                                   "concurrent_objects": 1, "targets": tsel}
                for mode in ("process", "sequential"):
                    i += 1
                    if env.mine(i):
                        yield {"arch": sp, "mode": mode, "damage": dmg, "out": "path" if mode == "process" else "factory", "chunk": 64, "sched": [],
                               "concurrent_objects": 1}
                i += 1
                if env.mine(i):
                    yield {"arch": sp, "mode": "process", "damage": dmg, "out": "factory", "chunk": 64, "sched": [], "concurrent_objects": 1}
                # output to disk with the file-system events as scheduling points; all folders write into one directory that no entry creates
                if dmg is None:
                    i += 1
                    if env.mine(i):
                        yield {"arch": dict(sp, shared=True), "mode": "threads", "damage": None, "out": "path", "chunk": 64, "sched": "dfs", "concurrent_objects": 1}
                    i += 1
                    if env.mine(i):
                        yield {"arch": sp, "mode": "threads", "damage": None, "out": "path", "chunk": 64, "sched": "dfs", "concurrent_objects": 1}
                # free-running workers, selections in which an unwanted member precedes a wanted one in several folders
                if dmg is None and all(len(f) >= 2 for f in sp["folders"]):
                    nm0 = 0
                    second = []
                    for f in sp["folders"]:
                        second.append(nm0 + 1)
                        nm0 += len(f)
                    for outk in ("path", "factory"):
                        i += 1
                        if env.mine(i):
                            yield {"arch": dict(sp, seed=sp["seed"] + 50), "mode": "threads", "damage": None, "out": outk, "chunk": 200, "sched": "free",
                                   "concurrent_objects": 1, "targets": second}
                # integrity test instead of extraction, with ordinary and very long member names (a worker's error carries the name)
                for mode in ("threads", "process", "sequential"):
                    for ln in (0, 30000):
                        i += 1
                        if env.mine(i):
                            yield {"arch": dict(sp, longname=ln, chains=[0]) if ln else sp, "mode": mode, "damage": dmg, "out": "factory", "chunk": 64, "sched": [],
                                   "concurrent_objects": 1, "op": "testzip"}

    def _dups(self, case, env):
        """duplicate member names across folders (and a member literally named like the substitute): the output, whatever the
        library chooses to call the duplicates, must be the same under every order in which the folder workers finish"""
        import py7zr.py7zr as pp

        out = Outcome()
        out.nontrivial = True
        names = case["names"]
        out.descriptor = ("dups", tuple(names), case["out"])
        out.label("op:dups", "out:" + case["out"])
        bio = io.BytesIO()
        contents = [("member-%d:" % i).encode() * (i + 2) for i in range(len(names))]
        for i, (n, d) in enumerate(zip(names, contents)):
            bio.seek(0)
            with py7zr.SevenZipFile(bio, "w" if i == 0 else "a", filters=CHAINS[0]) as z:
                z.set_encoded_header_mode(False)
                z.writestr(d, n)
        data = bio.getvalue()
        work = env.tmpdir("c13-")
        apath = os.path.join(work, "a.7z")
        with open(apath, "wb") as f:
            f.write(data)
        sig = {"op": "dups", "out": case["out"]}

        def run(order):
            """order: None = sequential (stream); else the workers run to completion one at a time in this order of start"""
            turn = threading.Semaphore(1)
            idx = {"n": 0}
            events = [threading.Event() for _ in names]

            class Serial(threading.Thread):
                def __init__(self, *a, **kw):
                    super().__init__(*a, **kw)
                    self._k = idx["n"]
                    idx["n"] += 1

                def run(self):
                    pos = order.index(self._k) if self._k in order else len(order)
                    if pos > 0 and order[pos - 1] < len(events):
                        events[order[pos - 1]].wait(5)
                    try:
                        super().run()
                    finally:
                        if self._k < len(events):
                            events[self._k].set()

            orig = getattr(pp, "Thread", None)
            got = {}
            try:
                if order is not None and orig is not None:
                    pp.Thread = Serial
                src = io.BytesIO(data) if order is None else apath
                with py7zr.SevenZipFile(src) as z:
                    if case["out"] == "factory":
                        fac = py7zr.io.BytesIOFactory(arch.BIG)
                        z.extractall(factory=fac)
                        for k, v in fac.products.items():
                            v.seek(0)
                            got[k] = v.read()
                    else:
                        dest = os.path.join(work, "o%d" % len(os.listdir(work)))
                        z.extractall(dest)
                        for root, _, files in os.walk(dest):
                            for fn in files:
                                with open(os.path.join(root, fn), "rb") as f:
                                    got[os.path.relpath(os.path.join(root, fn), dest)] = f.read()
            finally:
                if orig is not None:
                    pp.Thread = orig
            return got

        try:
            ref = run(None)
            if sorted(ref.values()) != sorted(contents):
                out.violate(dict(sig, kind="duplicate-names-lose-a-member", mode="sequential"), observed={k: len(v) for k, v in ref.items()}, expected="every member delivered under some name")
            n = len(names)
            import itertools

            for order in itertools.permutations(range(n)):
                got = run(list(order))
                if got != ref:
                    out.violate(dict(sig, kind="output-depends-on-worker-order"), observed={"order": list(order), "got": {k: v[:12].decode() for k, v in got.items()}},
                                expected={k: v[:12].decode() for k, v in ref.items()})
                    break
        except Exception as e:
            cls, frame = arch.exc_sig(e)
            out.violate(dict(sig, kind="duplicate-names-raise", exc=cls, frame=frame), observed=repr(e)[:200], expected="extraction completes")
        finally:
            shutil.rmtree(work, ignore_errors=True)
        return out

    # ------------------------------------------------------------------
    def execute(self, case, env):
        if case.get("op") == "dups":
            return self._dups(case, env)
        out = Outcome()
        data, model, folder_of, ranges = build(case["arch"])
        nf = len(ranges)
        dmg = case["damage"]
        if dmg is not None:
            dmg = dmg % nf
            a, b = ranges[dmg]
            if b - a < 1:
                dmg = None
        D = bytearray(data)
        if dmg is not None:
            a, b = ranges[dmg]
            pos = a + (b - a) // 2
            D[pos] ^= 0xFF
        D = bytes(D)
        names = list(model)
        T = None
        if case.get("targets") is not None:
            T = sorted({names[i % len(names)] for i in case["targets"]})
            full_model = model
            model = {n: full_model[n] for n in T}
            if dmg is not None and not any(folder_of[n] == dmg for n in T):
                dmg = None  # the damaged folder holds no selected member: it is skipped, nothing to report
                out.label("damage-in-skipped-folder")
        mode = case["mode"]
        outk = case["out"]  # also in process mode: what a WriterFactory receives must not depend on the mode
        op = case.get("op", "extract")
        if case["arch"].get("longname") and op != "testzip":
            out.skipped = "longname-needs-testzip"
            return out
        env.state["k"] += 1
        work = env.tmpdir("c13-")  # unique: a replacement sandbox child must not collide with a killed one
        apath = os.path.join(work, "a.7z")
        with open(apath, "wb") as f:
            f.write(D)
        out.descriptor = (repr(case["arch"]), dmg, mode, outk, case["chunk"], case["sched"] if isinstance(case["sched"], str) else tuple(case["sched"]), case["concurrent_objects"],
                          tuple(T) if T else None)
        out.label("mode:" + mode, "out:" + outk, "damage:" + ("none" if dmg is None else ("first" if dmg == 0 else ("last" if dmg == nf - 1 else "middle"))),
                  "folders=%d" % nf)
        sig = {"mode": mode, "out": outk, "damaged": dmg is not None, "targets": T is not None}
        if op == "testzip":
            sig["op"] = "testzip"
            sig["longname"] = bool(case["arch"].get("longname"))
            out.label("op:testzip", "longname" if case["arch"].get("longname") else "shortname")
        if dmg is not None:
            sig["position"] = "first" if dmg == 0 else ("last" if dmg == nf - 1 else "middle")
        nsched = 0
        switched = False
        try:
            with patches.memory_limit(case["chunk"]):
                if op == "testzip":
                    self._run_testzip(apath, D, build(case["arch"])[1], folder_of, dmg, mode, out, sig)
                    nsched = 1
                elif mode == "threads" and case["sched"] == "free":
                    # no gates at all: the workers run as the interpreter schedules them, several times over (races inside
                    # regions the harness cannot see - decoding into a null sink, shared bookkeeping - only show up like this)
                    for rep in range(8):
                        self._run_plain(apath, D, model, folder_of, dmg, mode, outk, os.path.join(work, "r%d" % rep), out, sig, T)
                        nsched += 1
                        if out.violations:
                            break
                    switched = True
                elif mode == "threads":
                    schedule = [] if case["sched"] == "dfs" else list(case["sched"])
                    cap = 250 if env.quick else 1500
                    while True:
                        r = self._run_threads(apath, model, folder_of, dmg, schedule, out, sig, T, dest=os.path.join(work, "out") if outk == "path" else None)
                        nsched += 1
                        if r is None:
                            break
                        options, trace = r
                        keys = [t[2] for t in trace]
                        if len(set(keys)) >= 2 and any(keys[i] != keys[i + 1] for i in range(len(keys) - 1)):
                            switched = True
                        if case["sched"] != "dfs" or nsched >= cap or out.violations:
                            break
                        schedule = next_schedule(options, schedule)
                        if schedule is None:
                            out.label("dfs:exhausted")
                            break
                    if case["concurrent_objects"] > 1 and D == data:
                        self._concurrent(apath, build(case["arch"])[1], case["concurrent_objects"], out, sig)
                else:
                    self._run_plain(apath, D, model, folder_of, dmg, mode, outk, work, out, sig, T)
                    nsched = 1
        finally:
            shutil.rmtree(work, ignore_errors=True)
        out.count("schedules", nsched)
        out.nontrivial = (mode == "threads" and switched) or (mode != "threads" and nf >= 2)
        out.sample = {"arch": case["arch"], "mode": mode, "damage": dmg, "out": outk, "schedules_run": nsched}
        return out

    def _judge(self, out, sig, raised, got, model, folder_of, dmg, extra=None):
        ctx = dict(sig)
        if extra:
            ctx.update(extra)
        if dmg is None:
            if raised is not None:
                out.violate(dict(ctx, kind="intact-archive-raises", exc=type(raised).__name__), observed=repr(raised)[:200], expected="model delivered")
                return
            if set(got) != set(model):
                out.violate(dict(ctx, kind="delivered-set-differs"), observed=sorted(got), expected=sorted(model))
        else:
            if raised is None:
                # no exception: then no worker can have met an error, i.e. the damaged folder's members must all be there and right
                # (an inverted byte in padding, in an empty member's stream or past the data a streaming decoder needs is harmless)
                bad = [n for n in model if folder_of.get(n) == dmg and got.get(n) != model[n]]
                if bad:
                    out.violate(dict(ctx, kind="worker-error-lost"), observed={"returned": "normally", "wrong_or_missing": bad[:4], "delivered": sorted(got)},
                                expected="an exception from extract/extractall")
                else:
                    out.label("damage-harmless")
                    if set(got) != set(model):
                        out.violate(dict(ctx, kind="delivered-set-differs"), observed=sorted(got), expected=sorted(model))
        for n, d in got.items():
            if n in model and d != model[n] and (dmg is None or folder_of.get(n) != dmg):
                out.violate(dict(ctx, kind="bytes-differ"), observed={"name": n, "len": len(d), "folder": folder_of.get(n)}, expected={"len": len(model[n])})

    def _run_threads(self, apath, model, folder_of, dmg, schedule, out, sig, T=None, dest=None):
        import py7zr.py7zr as pp

        counter = {"n": 0}
        sched = Scheduler(schedule, key_of=lambda label: label[1] if label[0] == "start" else "f%s" % folder_of.get(label[1], "?"))
        if dest is not None:
            install_audit_gate()
            shutil.rmtree(dest, ignore_errors=True)
            os.makedirs(dest)

        class GatedThread(threading.Thread):
            """worker threads also park before their first statement, so that a late start is a schedulable event"""

            def __init__(self, *a, **kw):
                super().__init__(*a, **kw)
                self._verif_idx = counter["n"]
                counter["n"] += 1

            def run(self):
                sched.point(("start", "w%02d" % self._verif_idx))
                super().run()

        fac = GateFactory(sched)
        raised = None
        orig_thread = getattr(pp, "Thread", None)
        if orig_thread is not None:
            pp.Thread = GatedThread
        sched.start()
        try:
            if dest is not None:
                _AUDIT["root"] = dest.rstrip("/") + "/"
                _AUDIT["sched"] = sched
            try:
                with py7zr.SevenZipFile(apath, "r") as z:
                    if dest is not None:
                        if T is None:
                            z.extractall(dest)
                        else:
                            z.extract(dest, targets=T)
                    elif T is None:
                        z.extractall(factory=fac)
                    else:
                        z.extract(targets=T, factory=fac)
            except Exception as e:
                raised = e
        finally:
            _AUDIT["sched"] = None
            sched.finish()
            if orig_thread is not None:
                pp.Thread = orig_thread
        if sched.error:
            raise HarnessError(sched.error)
        if dest is not None:
            got = {}
            for n in model:
                p = os.path.join(dest, n)
                if os.path.isfile(p):
                    with open(p, "rb") as f:
                        got[n] = f.read()
        else:
            got = {k: v.buf.getvalue() for k, v in fac.products.items()}
        self._judge(out, sig, raised, got, model, folder_of, dmg, {"schedule_len": min(len(sched.trace), 3) and "scheduled"})
        if not sched.trace:
            return None
        return sched.options, sched.trace

    def _run_plain(self, apath, D, model, folder_of, dmg, mode, outk, work, out, sig, T=None):
        raised = None
        got = {}
        try:
            if mode == "sequential":
                src = io.BytesIO(D)
                kw = {}
            else:
                src = apath
                kw = {"mp": True} if mode == "process" else {}
            with py7zr.SevenZipFile(src, "r", **kw) as z:
                if outk == "factory":
                    fac = py7zr.io.BytesIOFactory(arch.BIG)
                    if T is None:
                        z.extractall(factory=fac)
                    else:
                        z.extract(targets=T, factory=fac)
                    for k, v in fac.products.items():
                        v.seek(0)
                        got[k] = v.read()
                else:
                    dest = os.path.join(work, "out")
                    if T is None:
                        z.extractall(dest)
                    else:
                        z.extract(dest, targets=T)
        except Exception as e:
            raised = e
        if outk == "path":
            dest = os.path.join(work, "out")
            for n in model:
                p = os.path.join(dest, n)
                if os.path.exists(p):
                    with open(p, "rb") as f:
                        got[n] = f.read()
        self._judge(out, sig, raised, got, model, folder_of, dmg)

    def _run_testzip(self, apath, D, model, folder_of, dmg, mode, out, sig):
        """testzip() in each mode: None for an intact archive, a member of the damaged folder (or an exception) otherwise; a
        call that never returns is caught by the sandbox watchdog"""
        try:
            if mode == "sequential":
                z = py7zr.SevenZipFile(io.BytesIO(D), "r")
            else:
                z = py7zr.SevenZipFile(apath, "r", **({"mp": True} if mode == "process" else {}))
            with z:
                r = z.testzip()
        except Exception as e:
            if dmg is None:
                out.violate(dict(sig, kind="intact-archive-raises", exc=type(e).__name__), observed=repr(e)[:200], expected="testzip() is None")
            return
        if dmg is None and r is not None:
            out.violate(dict(sig, kind="testzip-blames-intact-archive"), observed=str(r)[:80], expected=None)
        elif dmg is not None and (r is None or folder_of.get(r) != dmg):
            out.violate(dict(sig, kind="testzip-misses-damaged-folder" if r is None else "testzip-blames-wrong-member"),
                        observed=None if r is None else {"name": str(r)[:40], "folder": folder_of.get(r)}, expected={"folder": dmg})

    def _concurrent(self, apath, model, k, out, sig):
        results = [None] * k
        errs = [None] * k
        barrier = threading.Barrier(k)

        def run(i):
            try:
                barrier.wait(5)
                with py7zr.SevenZipFile(apath, "r") as z:
                    fac = py7zr.io.BytesIOFactory(arch.BIG)
                    z.extractall(factory=fac)
                    r = {}
                    for kk, v in fac.products.items():
                        v.seek(0)
                        r[kk] = v.read()
                    results[i] = r
            except Exception as e:
                errs[i] = e

        ts = [threading.Thread(target=run, args=(i,)) for i in range(k)]
        for t in ts:
            t.start()
        for t in ts:
            t.join(60)
        for i in range(k):
            if errs[i] is not None:
                out.violate(dict(sig, kind="concurrent-objects-raise", exc=type(errs[i]).__name__), observed=repr(errs[i])[:200], expected="independent extraction")
            elif results[i] != model:
                out.violate(dict(sig, kind="concurrent-objects-differ"), observed=sorted(results[i] or {}), expected=sorted(model))


CHECK = C13()
