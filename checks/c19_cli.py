"""C19 - the command line mirrors the library and its exit status tells the truth."""
import glob
import io
import os
import shutil
import subprocess
import sys

from hypothesis import strategies as st

from gen import basic as G
from gen import seeds as S
from ref7z import coders as RC
from ref7z import reader as RR
from vlib import arch
from vlib.runner import REPO, Check, Outcome

import py7zr

from checks import c02_tree as T
from checks.c04_damage import apply_fault, get_base

PY = sys.executable
UNITS = ["", "b", "k", "m", "g", "B", "K", "M", "G"]


def cli(args, cwd, stdin=None, timeout=120):
    env = dict(os.environ, PYTHONPATH=REPO, PYTHONHASHSEED="0", COLUMNS="200")
    p = subprocess.run([PY, "-m", "py7zr"] + args, cwd=cwd, env=env, input=stdin, capture_output=True, timeout=timeout)
    return p.returncode, p.stdout.decode("utf-8", "replace"), p.stderr.decode("utf-8", "replace")


def listing_names(stdout):
    """names are the suffix of each table row between the two dashed lines"""
    lines = stdout.splitlines()
    idx = [i for i, l in enumerate(lines) if l.startswith("-------------------")]
    if len(idx) < 2:
        return None
    rows = lines[idx[0] + 1: idx[1]]
    out = []
    for r in rows:
        # "%s %s %s %12d %s %s": date(10) time(8|9) attr(5) size(12) extra(13) name
        parts = r.split(None, 3)
        out.append(r)
    return rows


def safe_name_tree():
    """C02 trees whose names are printable without line breaks (needed to parse 'l')"""
    return T.tree_strategy().filter(lambda c: all(n["name"].isprintable() and not n["name"].startswith("-") and n["name"] == n["name"].strip()
                                                  for p, n in T.flatten(c["root"])))


class C19(Check):
    property_id = "C19"
    level = "exploration"
    technique = "python -m py7zr as a subprocess on generated trees, damaged / encrypted / unsupported archives and -v SIZE forms; exit status, stdout and resulting files compared with the model, the reference reader and the library"
    rule = ("(tree) C02 trees with printable names: 'c' (archive name with/without .7z) then 'l' / 'l --verbose' (rows list exactly the "
            "library's getnames in order), 't' (exit 0), 'x' into a given directory or the cwd (tree equal: paths, kinds, bytes, link texts), "
            "'a' of an extra file/dir (earlier members unchanged per library read, exit 0); (damage) C04 base archives with a bit flip / byte "
            "overwrite / truncation: 't' and 'x' must exit non-zero whenever the image does not extract to the original "
            "members, and 0 when it does (intact archive or harmless damage); (special) encrypted archives without -P, header-encrypted archives, unsupported-method "
            "fixtures, a non-7z file => non-zero for 't' and 'x'; 'i' => 0; -P with the password on stdin round-trips; (volume) 'c -v SIZE' for "
            "SIZE = digits x {none,b,k,m,g,B,K,M,G} => exit 0 and the concatenated volumes read back as the tree; malformed SIZE => non-zero. "
            "Non-trivial: tree with >= 2 entries, a damaged/encrypted input, or a -v option; distinct by (kind, options, fault class).")
    assumptions = ["expected success/failure of 't'/'x' on a damaged image = does the library API deliver exactly the original members from that image (which C04 verifies independently against the pristine model); the reference reader's stricter whole-stream verdict is recorded as a label",
                   "the CLI runs with PYTHONPATH=/repo in a subprocess of the same interpreter"]
    budget_s = {"quick": 85, "thorough": 1500}

    def setup(self, env):
        env.state["k"] = 0

    def strategy(self, env):
        tree = st.fixed_dictionaries({"k": st.just("tree"), "tree": safe_name_tree(), "ext": st.booleans(), "odir": st.booleans(), "verbose": st.booleans(),
                                      "append": st.sampled_from(["none", "file", "dir"]), "nest": st.booleans(),
                                      "stem": st.sampled_from(["t", "t", "backup.2024", "v1.2.3", "site.tar", "a b", ".hidden", "x.7z.old"])})
        from checks.c04_damage import base_names

        bases = [b for b in base_names() if "aes" not in b]
        fault = st.one_of(st.fixed_dictionaries({"k": st.just("flip"), "bit": st.integers(0, 4000)}),
                          st.fixed_dictionaries({"k": st.just("byte"), "pos": st.integers(0, 500), "val": st.sampled_from([0, 255, 1])}),
                          st.fixed_dictionaries({"k": st.just("trunc"), "len": st.integers(1, 500)}), st.none())
        damage = st.fixed_dictionaries({"k": st.just("damage"), "base": st.sampled_from(bases), "fault": fault})
        volume = st.fixed_dictionaries({"k": st.just("volume"), "num": st.sampled_from(["1", "64", "100", "1000", "4096", "70000", "1048576"]),
                                        "unit": st.sampled_from(UNITS + ["kb", "x", " k", ".5k", "-1", ""])})
        return st.one_of(tree, tree, damage, damage, volume)

    def examples(self, env):
        return env.n(40, 800)

    def enumerated(self, env):
        i = 0
        specials = [{"k": "special", "what": w} for w in ("encrypted-data-no-P", "encrypted-header-no-P", "unsupported-lz4", "unsupported-bcj2", "not-7z", "info",
                                                          "password-roundtrip", "crc-fixture", "data-fixture")]
        for c in specials:
            i += 1
            if env.mine(i):
                yield c
        # archive names as typed: with and without .7z, stems that contain dots
        small = {"root": {"kind": "dir", "name": "root", "mode": 0o755, "mtime_ns": 10 ** 18, "children": [
            {"kind": "file", "name": "f.txt", "data": ["hex", "6869"], "mode": 0o644, "mtime_ns": 10 ** 18},
            {"kind": "file", "name": "epoch.dat", "data": ["hex", "30"], "mode": 0o600, "mtime_ns": 0},
            {"kind": "file", "name": "locked.bin", "data": ["hex", "31"], "mode": 0o000, "mtime_ns": 10 ** 18 + 7000},
            {"kind": "dir", "name": "d", "mode": 0o750, "mtime_ns": 10 ** 18, "children": []}]}, "links": [], "arcname": None, "password": None,
            "entry": "writeall", "source": "relative"}
        for stem in ("t", "backup.2024", "v1.2.3", "site.tar", ".hidden", "x.7z.old", "a b"):
            for ext in (False, True):
                i += 1
                if env.mine(i):
                    yield {"k": "tree", "tree": small, "ext": ext, "odir": bool(i % 2), "verbose": False, "append": ["none", "file", "dir"][i % 3], "nest": False, "stem": stem}
        for u in UNITS:
            i += 1
            if env.mine(i):
                yield {"k": "volume", "num": "1000" if u in ("", "b", "B") else "1", "unit": u}
        # damage in every region class of a few bases (Copy: certainly harmful; folder-CRC-only base)
        for base in ("ref:copy", "ref:foldercrc", "ref:multi3", "py:py-default", "py2:py-copy-raw", "ref:lzma2", "ref:mixed-copy"):
            data = get_base(base)[0]
            for pos in sorted({40, 45, len(data) // 2, len(data) - 20, len(data) - 3, 10, 20}):
                i += 1
                if env.mine(i) and 0 <= pos < len(data):
                    yield {"k": "damage", "base": base, "fault": {"k": "byte", "pos": pos, "val": data[pos] ^ 0x55}}

    # ------------------------------------------------------------------
    def execute(self, case, env):
        out = Outcome()
        env.state["k"] += 1
        work = env.tmpdir("c19-")  # unique: a replacement sandbox child must not collide with a killed one
        try:
            k = case["k"]
            out.label("kind:" + k)
            if k == "tree":
                self._tree(case, out, work)
            elif k == "damage":
                self._damage(case, out, work)
            elif k == "special":
                self._special(case, out, work)
            else:
                self._volume(case, out, work)
        except subprocess.TimeoutExpired:
            out.violate({"kind": "cli-timeout", "case": case["k"]}, observed="no exit within 120 s", expected="exit")
        finally:
            T.make_writable(work)
            shutil.rmtree(work, ignore_errors=True)
        return out

    def _tree(self, case, out, work):
        tcase = dict(case["tree"], dereference=False)
        top = os.path.join(work, "s")
        nest = bool(case.get("nest"))
        srcbase = os.path.join(top, "p", "q") if nest else top
        os.makedirs(srcbase)
        nodes, links = T.materialise(tcase, srcbase)
        rootname = tcase["root"]["name"]
        given = ("p/q/" + rootname) if nest else rootname  # the path as typed on the command line: stored names keep it
        out.nontrivial = len(nodes) + len(links) >= 2
        out.descriptor = ("tree", len(nodes), len(links), case["ext"], case["odir"], case["verbose"], case["append"], nest)
        out.sample = {"nodes": len(nodes), "links": len(links), "ext": case["ext"], "odir": case["odir"], "append": case["append"]}
        stem = case.get("stem") or "t"  # a stem with dots: '.7z' is appended to the name as given, nothing is replaced
        aname = stem + ".7z"
        arcarg = aname if case["ext"] else stem
        sig = {"cmd": "c"}
        rc, so, se = cli(["c", arcarg, given], top)
        apath = os.path.join(top, aname)
        if rc != 0 or not os.path.exists(apath):
            out.violate(dict(sig, kind="create-failed", rc=rc, dotted="." in stem), observed={"err": (se or so)[-300:], "files": sorted(os.listdir(top))[:6]},
                        expected="exit 0 and archive " + aname)
            return
        with py7zr.SevenZipFile(apath) as z:
            libnames = z.getnames()
        # l
        rc, so, se = cli(["l", aname] + (["--verbose"] if case["verbose"] else []), top)
        if libnames and not all(n == given or n.startswith(given + "/") for n in libnames):
            out.violate({"cmd": "c", "kind": "stored-names-do-not-keep-the-given-path", "nest": nest}, observed=libnames[:4], expected=given + "/...")
        rows = listing_names(so)
        if rc != 0 or rows is None:
            out.violate({"cmd": "l", "kind": "list-failed", "rc": rc}, observed=(se or so)[-300:], expected="exit 0 and a table")
        else:
            if len(rows) != len(libnames) or any(not r.endswith(" " + n) for r, n in zip(rows, libnames)):
                out.violate({"cmd": "l", "kind": "listing-differs-from-library", "verbose": case["verbose"]},
                            observed=[r[-40:] for r in rows][:6], expected=libnames[:6])
        # t
        rc, so, se = cli(["t", aname], top)
        if rc != 0:
            out.violate({"cmd": "t", "kind": "intact-archive-nonzero", "rc": rc}, observed=(se or so)[-300:], expected="exit 0")
        # x
        xdir = os.path.join(work, "x")
        os.makedirs(xdir)
        if case["odir"]:
            rc, so, se = cli(["x", apath, "outdir"], xdir)
            dest = os.path.join(xdir, "outdir")
        else:
            rc, so, se = cli(["x", apath], xdir)
            dest = xdir
        if rc != 0:
            out.violate({"cmd": "x", "kind": "extract-failed", "rc": rc, "odir": case["odir"]}, observed=(se or so)[-300:], expected="exit 0")
        else:
            want = T.scan(top)
            want = {p: v for p, v in want.items() if p == given or p.startswith(given + "/")}
            got = T.scan(dest) if os.path.isdir(dest) else {}
            got = {p: v for p, v in got.items() if p == given or p.startswith(given + "/")}
            if set(want) != set(got):
                out.violate({"cmd": "x", "kind": "tree-paths-differ", "odir": case["odir"]}, observed={"missing": sorted(set(want) - set(got))[:4], "extra": sorted(set(got) - set(want))[:4]},
                            expected="same paths")
            for p in set(want) & set(got):
                if want[p][0] != got[p][0] or want[p][1] != got[p][1]:
                    out.violate({"cmd": "x", "kind": "tree-content-differs", "what": want[p][0]}, observed={"path": p}, expected="same kind/bytes/link text")
                elif want[p][0] in ("file", "dir") and want[p][2] != got[p][2]:
                    out.violate({"cmd": "x", "kind": "tree-mode-differs", "what": want[p][0]}, observed={"path": p, "got": oct(got[p][2])}, expected=oct(want[p][2]))
                elif want[p][0] == "file" and abs(want[p][3] - got[p][3]) > 5000:
                    # regular files are not touched after extraction: the restored mtime agrees to within 5 microseconds
                    out.violate({"cmd": "x", "kind": "tree-mtime-differs", "epoch": want[p][3] < 10 ** 10}, observed={"path": p, "got": got[p][3]}, expected=want[p][3])
        # a
        if case["append"] != "none":
            with py7zr.SevenZipFile(apath) as z:
                before = arch.read_all(apath)[1] if False else None
            names0, data0 = arch.read_all(apath)
            if case["append"] == "file":
                os.makedirs(os.path.join(top, "xx"), exist_ok=True)
                with open(os.path.join(top, "xx", "extra.txt"), "wb") as f:
                    f.write(b"appended")
                extra = "xx/extra.txt" if nest else "xx"
                want_new = "xx/extra.txt"
            else:
                os.makedirs(os.path.join(top, "more", "sub"))
                with open(os.path.join(top, "more", "sub", "n.bin"), "wb") as f:
                    f.write(b"\x00\x01appended")
                extra = "more/sub" if nest else "more"
                want_new = "more/sub/n.bin"
            rc, so, se = cli(["a", aname, extra], top)  # 'a' refuses names that lack .7z, by design
            if rc != 0:
                out.violate({"cmd": "a", "kind": "append-failed", "rc": rc}, observed=(se or so)[-300:], expected="exit 0")
            else:
                try:
                    names1, data1 = arch.read_all(apath)
                except Exception as e:
                    out.violate({"cmd": "a", "kind": "archive-unreadable-after-append"}, observed=repr(e)[:200], expected="readable")
                    return
                if names1[:len(names0)] != names0 or any(data1.get(n) != d for n, d in data0.items()):
                    out.violate({"cmd": "a", "kind": "earlier-members-disturbed"}, observed=names1[:6], expected=names0[:6])
                if len(names1) <= len(names0):
                    out.violate({"cmd": "a", "kind": "nothing-appended"}, observed=names1[-3:], expected="new members")
                elif want_new not in names1:
                    out.violate({"cmd": "a", "kind": "appended-name-does-not-keep-the-given-path", "nest": nest}, observed=names1[len(names0):][:4], expected=want_new)

    def _damage(self, case, out, work):
        data, model, links, pw, regions = get_base(case["base"])
        if case["fault"] is None:
            D = data
        else:
            D, pos = apply_fault(data, case["fault"])
        # does the operation succeed?  "Succeeds" = the library API, run on the same image, delivers exactly the original members
        # (C04 checks independently that the library never delivers wrong content); a streaming decoder may legitimately not
        # notice damage beyond the bytes it needs, so the reference reader's stricter whole-stream verdict is only recorded.
        try:
            names, got = arch.read_all(io.BytesIO(D), pw)
            good = got == model
        except Exception:
            good = False
        try:
            P = RR.parse(D, password=pw)
            ref_good = not P.errors and not [v for v in RR.hard_violations(P) if "crc-mismatch" in v or "decode-error" in v]
        except Exception:
            ref_good = False
        out.label("ref:" + ("good" if ref_good else "bad"))
        out.nontrivial = D != data
        out.descriptor = ("damage", case["base"], repr(case["fault"]))
        out.label("image:" + ("good" if good else "bad"))
        out.sample = {"base": case["base"], "fault": case["fault"], "image_decodes_to_original": good}
        apath = os.path.join(work, "d.7z")
        with open(apath, "wb") as f:
            f.write(D)
        for cmd in ("t", "x"):
            xdir = os.path.join(work, "o" + cmd)
            os.makedirs(xdir)
            rc, so, se = cli([cmd, apath] + (["out"] if cmd == "x" else []), xdir)
            if good and rc != 0 and D == data:
                out.violate({"cmd": cmd, "kind": "intact-archive-nonzero", "base": case["base"].split(":")[0]}, observed=(se or so)[-300:], expected="exit 0")
            elif not good and rc == 0:
                out.violate({"cmd": cmd, "kind": "damaged-archive-exit-0", "base": "ref" if case["base"].startswith("ref") else "py"},
                            observed={"stdout": so[-200:], "fault": case["fault"]}, expected="non-zero exit status")

    def _special(self, case, out, work):
        w = case["what"]
        out.nontrivial = True
        out.descriptor = ("special", w)
        out.sample = {"what": w}
        fx = os.path.join(REPO, "tests/data")
        if w == "info":
            rc, so, se = cli(["i"], work)
            if rc != 0:
                out.violate({"cmd": "i", "kind": "info-nonzero"}, observed=(se or so)[-200:], expected="exit 0")
            return
        if w == "password-roundtrip":
            src = os.path.join(work, "s")
            os.makedirs(os.path.join(src, "d"))
            with open(os.path.join(src, "d", "f.txt"), "wb") as f:
                f.write(b"secret content")
            rc, so, se = cli(["c", "-P", "e.7z", "d"], src, stdin=b"pw1\n")
            if rc != 0:
                out.violate({"cmd": "c -P", "kind": "create-failed"}, observed=(se or so)[-300:], expected="exit 0")
                return
            rc, so, se = cli(["x", "-P", os.path.join(src, "e.7z"), "o"], work, stdin=b"pw1\n")
            ok = rc == 0 and os.path.exists(os.path.join(work, "o", "d", "f.txt"))
            if not ok:
                out.violate({"cmd": "x -P", "kind": "password-roundtrip-failed", "rc": rc}, observed=(se or so)[-300:], expected="exit 0 and file")
            rc, so, se = cli(["x", os.path.join(src, "e.7z"), "o2"], work)
            if rc == 0:
                out.violate({"cmd": "x", "kind": "encrypted-without-password-exit-0"}, observed=so[-200:], expected="non-zero")
            rc, so, se = cli(["x", "-P", os.path.join(src, "e.7z"), "o3"], work, stdin=b"wrong\n")
            if rc == 0:
                out.violate({"cmd": "x -P", "kind": "wrong-password-exit-0"}, observed=so[-200:], expected="non-zero")
            return
        target = {"encrypted-data-no-P": os.path.join(fx, "encrypted_1.7z"), "encrypted-header-no-P": os.path.join(fx, "filename_encryption.7z"),
                  "unsupported-lz4": os.path.join(fx, "lz4.7z"), "unsupported-bcj2": os.path.join(fx, "lzma_bcj2_1.7z"),
                  "crc-fixture": os.path.join(fx, "crc_corrupted.7z"), "data-fixture": os.path.join(fx, "data_corrupted.7z")}.get(w)
        if w == "not-7z":
            target = os.path.join(work, "plain.7z")
            with open(target, "wb") as f:
                f.write(b"this is not an archive" * 10)
        for cmd in ("t", "x"):
            xdir = os.path.join(work, "o" + cmd)
            os.makedirs(xdir)
            rc, so, se = cli([cmd, target] + (["out"] if cmd == "x" else []), xdir)
            if rc == 0:
                out.violate({"cmd": cmd, "kind": "failure-exit-0", "what": w}, observed=so[-300:], expected="non-zero exit status")

    def _volume(self, case, out, work):
        if case["unit"] in ("", "b", "B") and case["num"].isdigit() and int(case["num"]) < 64:
            case = dict(case, num="64")  # volumes below 64 bytes are outside the quantifier (thousands of volumes; multivolumefile recurses per volume)
        size = case["num"] + case["unit"]
        import re

        valid = re.fullmatch(r"[0-9]+[bkmgBKMG]?", size) is not None and int(case["num"]) > 0
        out.nontrivial = True
        out.descriptor = ("volume", size)
        out.label("volume:" + ("valid" if valid else "invalid"))
        out.sample = {"size": size, "valid": valid}
        src = os.path.join(work, "s")
        os.makedirs(os.path.join(src, "d", "e"))
        files = {"d/a.txt": b"alpha" * 300, "d/e/b.bin": G.expand(["gen", "random", 5000, 9])}
        for n, d in files.items():
            with open(os.path.join(src, n), "wb") as f:
                f.write(d)
        rc, so, se = cli(["c", "-v", size, "v.7z", "d"], src)
        sig = {"cmd": "c -v", "unit": case["unit"] if case["unit"] in UNITS else "malformed"}
        if not valid:
            if rc == 0:
                out.violate(dict(sig, kind="invalid-volume-size-exit-0"), observed={"size": size}, expected="non-zero")
            return
        if rc != 0:
            out.violate(dict(sig, kind="valid-volume-size-rejected", rc=rc), observed={"size": size, "err": (se or so)[-300:]}, expected="exit 0")
            return
        vols = sorted(glob.glob(os.path.join(src, "v.7z.*")))
        if not vols:
            out.violate(dict(sig, kind="no-volumes-written"), observed=os.listdir(src), expected="v.7z.0001 ...")
            return
        mult = {"": 1, "b": 1, "k": 1024, "m": 1024 ** 2, "g": 1024 ** 3}[case["unit"].lower()]
        vs = int(case["num"]) * mult
        sizes = [os.path.getsize(v) for v in vols]
        if any(s > vs for s in sizes) or any(s != vs for s in sizes[:-1]):
            out.violate(dict(sig, kind="volume-sizes-wrong"), observed=sizes[:5], expected="every volume but the last = %d bytes" % vs)
        whole = b"".join(open(v, "rb").read() for v in vols)
        try:
            names, got = arch.read_all(io.BytesIO(whole))
        except Exception as e:
            out.violate(dict(sig, kind="volumes-unreadable"), observed=repr(e)[:200], expected="concatenated volumes are the archive")
            return
        for n, d in files.items():
            if got.get(n) != d:
                out.violate(dict(sig, kind="volume-content-differs"), observed={"name": n}, expected="source bytes")


CHECK = C19()
