"""C20 - streaming in bounded memory, however large or compressible a member is."""
import json
import os
import shutil
import subprocess
import sys

from hypothesis import strategies as st

from gen import basic as G
from vlib import memchild
from vlib.runner import REPO, VERIF, Check, Outcome

BUDGET_KB = 700 * 1024
CAP = 6 << 30

CODECS = {
    "Copy": [{"id": G.F_COPY}],
    "LZMA2": [{"id": G.F_LZMA2, "preset": 0}],
    "LZMA": [{"id": G.F_LZMA, "preset": 0}],
    "BZip2": [{"id": G.F_BZIP2}],
    "Deflate": [{"id": G.F_DEFLATE}],
    "Deflate64": [{"id": G.F_DEFLATE64}],
    "ZStandard": [{"id": G.F_ZSTD, "level": 1}],
    "Brotli": [{"id": G.F_BROTLI, "level": 1}],
    "PPMd": [{"id": G.F_PPMD, "order": 4, "mem": 22}],
    "X86+LZMA2": [{"id": G.F_X86}, {"id": G.F_LZMA2, "preset": 0}],
    "Delta+LZMA2": [{"id": G.F_DELTA, "dist": 4}, {"id": G.F_LZMA2, "preset": 0}],
    "X86+LZMA": [{"id": G.F_X86}, {"id": G.F_LZMA, "preset": 0}],
    "ARM+BZip2": [{"id": G.F_ARM}, {"id": G.F_BZIP2}],
    "X86+ZStandard": [{"id": G.F_X86}, {"id": G.F_ZSTD, "level": 1}],
    "X86+PPMd": [{"id": G.F_X86}, {"id": G.F_PPMD, "order": 4, "mem": 22}],
}
OPS = ["extract-path", "extract-factory", "testzip"]
CONTENTS = ["zeros", "period7", "period64k", "random"]
_digest_cache = {}


def run_child(spec, timeout):
    cmd = [sys.executable, os.path.join(VERIF, "vlib", "memchild.py"), json.dumps(spec)]
    try:
        p = subprocess.run(cmd, capture_output=True, timeout=timeout, env=dict(os.environ, PYTHONHASHSEED="0"))
    except subprocess.TimeoutExpired:
        return {"ok": False, "error": "watchdog", "inconclusive": True}
    lines = [l for l in p.stdout.decode("utf-8", "replace").splitlines() if l.startswith("{")]
    if not lines:
        return {"ok": False, "error": "child died rc=%s %s" % (p.returncode, p.stderr.decode("utf-8", "replace")[-300:]), "died": True}
    return json.loads(lines[-1])


def encoder_leaks(codec):
    """KF-61 / KF-62 (open, dependencies): pyppmd.Ppmd7Encoder.encode() and inflate64.Deflater.deflate() keep a reference to every
    input object they are given, so compressing N bytes in fresh blocks pins N bytes.  Decided by measuring the reference count of a
    probe object around one call of the library, not from the symptom."""
    import sys

    try:
        if "PPMd" in codec:
            import pyppmd

            enc = pyppmd.Ppmd7Encoder(6, 1 << 20)
            probe = bytes(1000) + b"p"
            before = sys.getrefcount(probe)
            enc.encode(probe)
            after = sys.getrefcount(probe)
            enc.flush()
            return "pyppmd" if after > before else None
        if "Deflate64" in codec:
            import inflate64

            enc = inflate64.Deflater()
            probe = bytes(1000) + b"d"
            before = sys.getrefcount(probe)
            enc.deflate(probe)
            after = sys.getrefcount(probe)
            enc.flush()
            return "inflate64" if after > before else None
    except Exception:
        return None
    return None


def bcj_decoder_leaks():
    """KF-71 (open, dependency): a bcj decoder object never gives back its internal buffer, which is as large as the largest piece
    it was fed (up to the 128 MB extraction chunk): every folder behind an alternative BCJ filter costs that much for the rest of the
    process.  Decided by measuring: decode 48 MiB through a fresh decoder, drop it, compare the resident set."""
    import gc

    import bcj

    def rss():
        with open("/proc/self/status") as f:
            for line in f:
                if line.startswith("VmRSS"):
                    return int(line.split()[1])
        return 0

    try:
        gc.collect()
        r0 = rss()
        d = bcj.BCJDecoder(1 << 40)
        out = d.decode(bytes(48 << 20)[:-1] + b"z")
        del out, d
        gc.collect()
        return rss() - r0 > (24 << 10)
    except Exception:
        return False


class C20(Check):
    property_id = "C20"
    level = "exploration"
    technique = "generated (codec chain x content class x size x write API x operation x solid position) cases executed in fresh child processes; peak resident set (VmHWM) growth over the post-import baseline as oracle, extracted length/CRC against the generator's"
    rule = ("one large member (quick: 1.07 GiB; thorough: 0.5 / 1.5 / 4 GiB - always above the 700 MiB budget and far above the 128 MB chunk) "
            "produced by a deterministic stream source (zeros, period 7, period 64 KiB, PRNG-incompressible, 64 KiB PRNG runs alternating with "
            "64 KiB of zeros), alone or first/last/between small members of the solid block, or four such members in four folders (extracted "
            "side by side), under each codec family (Copy, LZMA2, LZMA, BZip2, Deflate, Deflate64, ZStandard, Brotli, PPMd) also behind "
            "BCJ / Delta and under 7zAES; written with writef (stream) or write (real file) in one child process - into a new archive or appended to an existing one (mode 'a') - then extractall(path) / "
            "extractall(streaming WriterFactory) / testzip in another, with no data-segment limit or under a finite soft RLIMIT_DATA of 4..8 GiB (ulimit -d). Oracle: peak RSS growth of each child <= 700 MiB and the delivered "
            "length and CRC-32 equal the generator's. Every case is non-trivial (member > budget); distinct by (chain, content, size, op, write "
            "API, position, AES). A watchdog expiry is inconclusive; RLIMIT_AS (6 GiB) only stops runaways.")
    assumptions = ["VmHWM of a fresh process is the measure; the address-space cap only protects the host", "sizes sampled at a few points of an unbounded axis"]
    budget_s = {"quick": 170, "thorough": 3000}
    rlimit_as = None
    minimise = False

    def setup(self, env):
        env.state["k"] = 0

    def enumerated(self, env):
        big = 1100 if env.quick else 1536
        quick_cases = [
            ("Copy", "zeros", "extract-path", "writef", "alone", False),
            ("Copy", "random", "extract-factory", "write", "last", False),
            ("LZMA2", "zeros", "extract-path", "writef", "first", False),
            ("LZMA2", "period64k", "testzip", "writef", "last", False),
            ("LZMA", "zeros", "extract-factory", "writef", "middle", False),
            ("BZip2", "zeros", "extract-factory", "writef", "alone", False),
            ("ZStandard", "zeros", "extract-path", "writef", "alone", False),
            ("Deflate", "zeros", "extract-factory", "writef", "alone", False),
            ("Brotli", "zeros", "extract-path", "writef", "alone", False),
            ("Copy", "zeros", "extract-path", "writef", "alone", True),
            ("X86+LZMA2", "zeros", "extract-factory", "writef", "last", False),
            ("X86+LZMA", "zeros", "extract-factory", "writef", "alone", False),
            ("Delta+LZMA2", "period7", "extract-path", "writef", "alone", False),
            ("ZStandard", "random", "extract-factory", "writef", "alone", False),
            ("Deflate64", "zeros", "extract-factory", "writef", "middle", False),
        ]
        cases = [c + ("w", None) for c in quick_cases]
        # the big member added by an append session; extraction under a finite soft RLIMIT_DATA (`ulimit -d`)
        cases += [("LZMA2", "period64k", "extract-factory", "writef", "alone", False, "a", None), ("Copy", "random", "testzip", "write", "last", False, "a", None),
                  ("LZMA2", "zeros", "extract-factory", "writef", "alone", False, "w", 6 << 30), ("ZStandard", "zeros", "extract-path", "writef", "alone", False, "w", 5 << 30),
                  # four folders (extracted side by side when opened by name), and data that compresses to about one half
                  ("LZMA2", "zeros", "extract-factory", "writef", "folders4", False, "w", None), ("Copy", "zeros", "testzip", "writef", "folders4", True, "w", None),
                  ("ZStandard", "half", "extract-factory", "writef", "alone", False, "w", None), ("ZStandard", "half", "extract-path", "writef", "alone", True, "w", None)]
        if not env.quick:
            cases += [("PPMd", "zeros", "extract-factory", "writef", "alone", False, "w", None), ("LZMA2", "zeros", "extract-factory", "writef", "alone", True, "w", None),
                      ("Deflate64", "zeros", "extract-path", "writef", "alone", False, "w", None)]
            for codec in CODECS:
                for content in ("zeros", "random"):
                    for op in OPS:
                        c = (codec, content, op, "writef", "alone", False, "w", None)
                        if c not in cases and not (content == "random" and codec in ("BZip2", "PPMd", "X86+PPMd", "ARM+BZip2", "Deflate64", "LZMA", "X86+LZMA")):
                            cases.append(c)
        for i, (codec, content, op, wapi, position, aes, wmode, rdata) in enumerate(cases):
            if env.mine(i):
                yield {"codec": codec, "content": content, "size_mb": big, "op": op, "wapi": wapi, "position": position, "aes": aes, "seed": i + 1,
                       "wmode": wmode, "rlimit_data": rdata}

    def strategy(self, env):
        if env.quick:
            return None
        return st.fixed_dictionaries({"codec": st.sampled_from(sorted(CODECS)), "content": st.sampled_from(["zeros", "zeros", "period7", "period64k", "random", "half"]),
                                      "size_mb": st.sampled_from([512, 1536, 4096]), "op": st.sampled_from(OPS), "wapi": st.sampled_from(["writef", "write"]),
                                      "position": st.sampled_from(["alone", "first", "last", "middle", "folders4"]), "aes": st.sampled_from([False, False, True]),
                                      "wmode": st.sampled_from(["w", "w", "a"]), "rlimit_data": st.sampled_from([None, None, 4 << 30, 8 << 30]),
                                      "seed": st.integers(1, 999)}).filter(
            lambda c: not (c["content"] in ("random", "half") and "PPMd" in c["codec"]) and not (c["content"] == "random" and (c["codec"] in ("BZip2", "PPMd", "X86+PPMd", "ARM+BZip2", "Deflate64", "LZMA", "X86+LZMA") or c["size_mb"] > 1536))
            and not (c["size_mb"] > 1536 and c["codec"] in ("BZip2", "ARM+BZip2", "PPMd", "X86+PPMd", "Deflate64")))

    def examples(self, env):
        return 0 if env.quick else 3

    def execute(self, case, env):
        out = Outcome()
        out.nontrivial = True
        filters = [dict(f) for f in CODECS[case["codec"]]]
        pw = None
        if case["aes"]:
            filters.append({"id": G.F_AES})
            pw = "pw"
        size = case["size_mb"] << 20
        wmode, rdata = case.get("wmode", "w"), case.get("rlimit_data")
        out.descriptor = (case["codec"], case["content"], case["size_mb"], case["op"], case["wapi"], case["position"], case["aes"], wmode, rdata)
        out.label("wmode:" + wmode, "rlimit_data:" + ("none" if not rdata else "%dG" % (rdata >> 30)))
        out.label("codec:" + case["codec"], "content:" + case["content"], "op:" + case["op"], "wapi:" + case["wapi"], "pos:" + case["position"],
                  "aes" if case["aes"] else "plain")
        env.state["k"] += 1
        work = env.tmpdir("c20-")  # unique: a replacement sandbox child must not collide with a killed one
        try:
            small = [["s1.txt", "period7", 3000, 1], ["s2.bin", "random", 70000, 2]]
            bigm = ["big.bin", case["content"], size, case["seed"]]
            if case["position"] == "folders4":
                members = [["big%d.bin" % j, case["content"], size // 4 + (64 << 20), case["seed"] + j] for j in range(4)]
            else:
                members = {"alone": [bigm], "first": [bigm] + small, "last": small + [bigm], "middle": small[:1] + [bigm] + small[1:]}[case["position"]]
            apath = os.path.join(work, "a.7z")
            spec = {"repo": REPO, "op": case["wapi"], "filters": filters, "password": pw, "archive": apath, "members": members,
                    "srcfile": os.path.join(work, "src.bin"), "rlimit_as": CAP, "append": wmode == "a", "rlimit_data": rdata,
                    "one_folder_each": case["position"] == "folders4"}
            w = run_child(spec, 1700)
            sig = {"codec": case["codec"], "aes": case["aes"]}
            if wmode == "a":
                sig["wmode"] = "a"
            if rdata:
                sig["rlimit_data"] = True
            sample = {"case": case, "write": {k: w.get(k) for k in ("peak_growth_kb", "wall_s", "archive_bytes", "error")}}
            if w.get("inconclusive"):
                out.inconclusive = "watchdog-write"
                out.sample = sample
                return out
            if w.get("peak_growth_kb", 0) > BUDGET_KB:
                leak = encoder_leaks(case["codec"])
                if leak:
                    sig = dict(sig, encoder_leak=leak)  # KF-61 / KF-62: the codec library itself keeps every input block alive
                out.violate(dict(sig, kind="rss", op="write-" + case["wapi"], content="compressible" if case["content"] != "random" else "incompressible"),
                            observed={"peak_growth_mib": w["peak_growth_kb"] // 1024, "member_mib": case["size_mb"], "error": w.get("error")},
                            expected="<= 700 MiB")
            if not w.get("ok"):
                if w.get("peak_growth_kb", 0) <= BUDGET_KB:
                    out.violate(dict(sig, kind="write-failed", op="write-" + case["wapi"]), observed=w.get("error"), expected="archive written")
                out.sample = sample
                return out
            spec2 = {"repo": REPO, "op": case["op"], "password": pw, "archive": apath, "members": members, "dest": os.path.join(work, "out"), "rlimit_as": CAP, "rlimit_data": rdata}
            r = run_child(spec2, 1700)
            sample["read"] = {k: r.get(k) for k in ("peak_growth_kb", "wall_s", "error", "testzip")}
            out.sample = sample
            if r.get("inconclusive"):
                out.inconclusive = "watchdog-read"
                return out
            if r.get("peak_growth_kb", 0) > BUDGET_KB:
                if case["position"] == "folders4" and "+" in case["codec"] and not case["codec"].endswith(("LZMA2",)) and bcj_decoder_leaks():
                    sig = dict(sig, decoder_leak="bcj")  # KF-71
                out.violate(dict(sig, kind="rss", op=case["op"], content="compressible" if case["content"] != "random" else "incompressible"),
                            observed={"peak_growth_mib": r["peak_growth_kb"] // 1024, "member_mib": case["size_mb"], "error": r.get("error")},
                            expected="<= 700 MiB")
            elif not r.get("ok"):
                out.violate(dict(sig, kind="read-failed", op=case["op"]), observed=r.get("error"), expected="operation succeeds")
            elif case["op"] == "testzip":
                if r.get("testzip") is not None:
                    out.violate(dict(sig, kind="testzip-reports-damage"), observed=r.get("testzip"), expected=None)
            else:
                for name, kind, sz, seed in members:
                    key = (kind, sz, seed)
                    if key not in _digest_cache:
                        _digest_cache[key] = list(memchild.digest_of(kind, sz, seed))
                    got = r.get("delivered", {}).get(name)
                    if got != _digest_cache[key]:
                        out.violate(dict(sig, kind="content-differs", op=case["op"]), observed={"name": name, "got": got}, expected=_digest_cache[key])
            out.count("peak_write_mib_max_sum", w.get("peak_growth_kb", 0) // 1024)
            out.count("peak_read_mib_sum", r.get("peak_growth_kb", 0) // 1024)
        finally:
            shutil.rmtree(work, ignore_errors=True)
        return out


CHECK = C20()
