"""C04 - damage is detected: no success with different content; test()/testzip() consistent."""
import functools
import io
import os
import shutil
import stat
import struct

from hypothesis import strategies as st

from gen import seeds as S
from vlib import arch
from vlib.runner import Check, Outcome

import py7zr
from py7zr.callbacks import ExtractCallback
from py7zr.io import BytesIOFactory

_bases = {}


def base_names():
    return ["ref:" + n for n in sorted(S.ref_specs(True))] + ["py:" + n for n in sorted(S.PY_SEEDS)] + ["py2:py-copy-raw", "py2:py-default", "py3:py-lzma-raw",
                                                                                                         "py2:py-zstd", "py40:py-copy-raw"]


def get_base(name):
    """-> (bytes, model {name: bytes}, dirs set, links set, password, regions [(start,end,label)])"""
    if name in _bases:
        return _bases[name]
    kind, n = name.split(":", 1)
    if kind == "ref":
        b, opts, pw = S.build_ref(n, True)
        files = S.ref_specs(True)[n][0]
        model = S.model_of(files)
        links = {f["name"] for f in files if f.get("attr") == S.A_LINK}
        regions = list(b.regions)
        data = b.data
    else:
        sessions = {"py": 1, "py2": 2, "py3": 3, "py40": 40}[kind]
        if kind == "py40":
            # forty folders (one per append session): more workers than any batch or pool size a library is likely to use
            data, model, pw = S.build_py(n, members=[("m%02d" % i, ("payload-%02d;" % i).encode() * 2) for i in range(40)], sessions=40)
        else:
            data, model, pw = S.build_py(n, sessions=sessions, small=True)
        links = set()
        off, size = struct.unpack("<QQ", data[12:28])
        regions = [(0, 32, "sig"), (32, 32 + off, "data"), (32 + off, 32 + off + size, "nextheader")]
    _bases[name] = (data, model, links, pw, regions)
    return _bases[name]


def region_of(regions, pos):
    for a, b, lab in regions:
        if a <= pos < b:
            return lab.rstrip("0123456789") if lab.startswith("pack") else lab
    return "beyond"


def apply_fault(data, f):
    d = bytearray(data)
    k = f["k"]
    n = len(d)
    if k == "flip":
        bit = f["bit"] % (n * 8)
        d[bit >> 3] ^= 0x80 >> (bit & 7)
        return bytes(d), bit >> 3
    if k == "byte":
        p = f["pos"] % n
        v = f["val"] & 0xFF
        if d[p] == v:
            v = (v + 1) & 0xFF
        d[p] = v
        return bytes(d), p
    if k == "trunc":
        ln = f["len"] % n
        return bytes(d[:ln]), ln
    if k == "extend":
        return bytes(d) + bytes([f["val"] & 0xFF]) * (1 + f["n"] % 64), n
    if k == "burst":
        bit = f["bit"] % (n * 8)
        ln = 2 + f["len"] % 31
        for i in range(ln):
            b = bit + i
            if b < n * 8 and (i == 0 or i == ln - 1 or (f["pattern"] >> (i % 30)) & 1):
                d[b >> 3] ^= 0x80 >> (b & 7)
        return bytes(d), bit >> 3
    if k == "insert":
        p = f["pos"] % n
        d[p:p] = bytes([0x5A]) * (1 + f["n"] % 4)
        return bytes(d), p
    if k == "delete":
        p = f["pos"] % n
        del d[p:p + 1 + f["n"] % 4]
        return bytes(d), p
    if k == "swap":
        off = struct.unpack("<Q", data[12:20])[0]
        nblk = off // 16
        if nblk < 2:
            return bytes(d), 0
        a, b = f["a"] % nblk, f["b"] % nblk
        if a == b:
            b = (a + 1) % nblk
        pa, pb = 32 + a * 16, 32 + b * 16
        d[pa:pa + 16], d[pb:pb + 16] = d[pb:pb + 16], d[pa:pa + 16]
        return bytes(d), pa
    raise ValueError(k)


class _QuietCallback(ExtractCallback):
    def report_start_preparation(self):
        pass

    def report_start(self, processing_file_path, processing_bytes):
        pass

    def report_update(self, decompressed_bytes):
        pass

    def report_end(self, processing_file_path, wrote_bytes):
        pass

    def report_warning(self, message):
        pass

    def report_postprocess(self):
        pass


def read_factory(data, pw, path=None, mp=False, callback=False):
    src = path if path else io.BytesIO(data)
    with py7zr.SevenZipFile(src, "r", password=pw, mp=mp) as z:
        names = z.getnames()
        fac = BytesIOFactory(arch.BIG)
        if callback:
            z.extractall(factory=fac, callback=_QuietCallback())
        else:
            z.extractall(factory=fac)
        got = {}
        for k, v in fac.products.items():
            v.seek(0)
            got[k] = v.read()
    return names, got


class C04(Check):
    property_id = "C04"
    level = "fault_enumeration"
    technique = "exhaustive single-bit flips of ~34 small base archives + every truncation length + sampled byte/burst/insert/delete/extend/block-swap faults; member-by-member comparison with the pristine model; test()/testzip() consistency"
    rule = ("base archives (~250-380 bytes): reference-written (every codec family, BCJ/Delta, AES data and AES header with 2^3 KDF rounds, 2-3 "
            "folders, packed CRCs, folder-level CRC only, a symlink/empty/dir mix) and py7zr-written (default, Copy/LZMA raw header, BZip2, "
            "ZStandard, Deflate, PPMd, AES, AES header, Copy+AES; 2-3 folders by append; one archive of 40 folders). Faults: every single-bit flip of every base "
            "(quick: every third bit of the py7zr-written bases), every truncation length, Hypothesis-sampled byte overwrite / burst <= 32 bits / "
            "insert / delete / extend / 16-byte block swap in the packed area. Each image is read four ways on fresh objects: (a) "
            "getnames+extractall(factory) from a stream - plain and with a progress callback attached -, (b) extractall(path) by file name, (c) test(), (d) testzip(); multi-folder bases "
            "also with mp=True. Violation: a call returns normally and delivers a name not in the original or bytes differing from the "
            "original under that name; or testzip() is None / test() is True while (a) on the same image raised or differed. Non-trivial: "
            "image differs from the base (always) and the fault lies in a classified region; distinct by (base, fault kind, position).")
    assumptions = ["single-bit and <=32-bit burst faults cannot collide in CRC-32; 2^-32 collisions ignored for other fault kinds",
                   "7zAES key derivation memoised by the harness (pure function) so that AES bases are affordable",
                   "a watchdog expiry is C05's business and recorded as inconclusive here"]
    budget_s = {"quick": 80, "thorough": 1500}
    sandbox_timeout = 30

    def setup(self, env):
        import py7zr.compressor as pc

        if hasattr(pc, "calculate_key") and not getattr(pc.calculate_key, "_memo", False):
            f = functools.lru_cache(maxsize=64)(pc.calculate_key)
            f._memo = True
            pc.calculate_key = f
        env.state["k"] = 0

    def on_abnormal(self, case, res, env):
        out = Outcome()
        if res[0] == "hang":
            out.inconclusive = "watchdog(C05)"
            return out
        return super().on_abnormal(case, res, env)

    def exhaustive(self, env):
        return not env.quick

    def enumerated(self, env):
        i = 0
        # the 40-folder archive first and only at one bit per packed stream (plus the header region): it is the size that matters
        name = "py40:py-copy-raw"
        data = get_base(name)[0]
        off, size = struct.unpack("<QQ", data[12:28])
        per = max(1, off // 40)
        for k in range(40):
            i += 1
            if env.mine(i):
                yield {"base": name, "fault": {"k": "flip", "bit": (32 + k * per + per // 2) * 8 + (k % 8)}}
        for bit in range((32 + off) * 8, len(data) * 8, 37):
            i += 1
            if env.mine(i):
                yield {"base": name, "fault": {"k": "flip", "bit": bit}}
        # round-robin over the bases (bit k of every base before bit k+1 of any): a run that is cut short by its budget has
        # thinned every base evenly instead of dropping the last ones altogether
        bases = [n for n in base_names() if not n.startswith("py40")]
        datas = {n: get_base(n)[0] for n in bases}
        for name in bases:
            i += 1
            if env.mine(i):
                yield {"base": name, "fault": None}
        maxbits = max(len(d) for d in datas.values()) * 8
        for bit in range(maxbits):
            for name in bases:
                if bit >= len(datas[name]) * 8:
                    continue
                if env.quick and name.startswith("py") and bit % 3:
                    continue  # quick: every third bit of the py7zr-written bases (reference-written ones stay exhaustive)
                i += 1
                if env.mine(i):
                    yield {"base": name, "fault": {"k": "flip", "bit": bit}}
        for ln in range(max(len(d) for d in datas.values())):
            for name in bases:
                if ln < len(datas[name]):
                    i += 1
                    if env.mine(i):
                        yield {"base": name, "fault": {"k": "trunc", "len": ln}}

    def strategy(self, env):
        fault = st.one_of(
            st.fixed_dictionaries({"k": st.just("byte"), "pos": st.integers(0, 4000), "val": st.sampled_from([0, 0xFF, 1, 0x80, 0x7F])}),
            st.fixed_dictionaries({"k": st.just("burst"), "bit": st.integers(0, 32000), "len": st.integers(0, 30), "pattern": st.integers(0, 1 << 30)}),
            st.fixed_dictionaries({"k": st.just("insert"), "pos": st.integers(0, 4000), "n": st.integers(0, 3)}),
            st.fixed_dictionaries({"k": st.just("delete"), "pos": st.integers(0, 4000), "n": st.integers(0, 3)}),
            st.fixed_dictionaries({"k": st.just("extend"), "n": st.integers(0, 63), "val": st.sampled_from([0, 0xFF, 0x17])}),
            st.fixed_dictionaries({"k": st.just("swap"), "a": st.integers(0, 64), "b": st.integers(0, 64)}),
        )
        return st.fixed_dictionaries({"base": st.sampled_from(base_names()), "fault": fault})

    def examples(self, env):
        return env.n(300, 20000)

    def execute(self, case, env):
        out = Outcome()
        name = case["base"]
        data, model, links, pw, regions = get_base(name)
        multi = name.startswith(("py2", "py3", "py40")) or "multi" in name or "packpos" in name
        if case["fault"] is None:
            D, pos = data, 0
            region = "none"
        else:
            D, pos = apply_fault(data, case["fault"])
            region = region_of(regions, pos) if case["fault"]["k"] not in ("extend",) else "beyond"
        fk = case["fault"]["k"] if case["fault"] else "intact"
        out.nontrivial = D != data
        out.descriptor = (name, fk, pos if fk in ("flip", "trunc") else repr(case["fault"]))
        out.label("fault:" + fk, "region:" + region, "base:" + name.split(":")[0])
        sig0 = {"fault": fk if fk in ("intact", "trunc", "extend", "insert", "delete") else "bits", "region": region,
                "base": "ref" if name.startswith("ref") else "py", "aes": "aes" in name}
        env.state["k"] += 1
        work = env.tmpdir("c4-")  # unique: a replacement sandbox child must not collide with a killed one
        apath = os.path.join(work, "d.7z")
        with open(apath, "wb") as f:
            f.write(D)
        try:
            # cheap pre-check: when the constructor itself rejects the image every read path fails the same way
            try:
                py7zr.SevenZipFile(io.BytesIO(D), "r", password=pw).close()
            except Exception:
                out.label("open:raises")
                if case["fault"] is None:
                    out.violate(dict(sig0, kind="intact-archive-not-read"), observed="open raises", expected="model")
                out.sample = {"base": name, "fault": case["fault"], "byte": pos, "region": region}
                return out
            # (a) stream + factory
            a_ok, a_wrong, a_exc = False, None, None
            try:
                names, got = read_factory(D, pw)
                a_ok = True
                a_wrong = self._judge(out, sig0, "factory", names, got, model, links)
            except Exception as e:
                out.label("a:raises")
                a_exc = type(e).__name__
            if a_ok:
                out.label("a:returns-" + ("wrong" if a_wrong else "right"))
            # (a') the same with a progress callback attached: an error must not get lost on the way past the reporter
            try:
                names_c, got_c = read_factory(D, pw, callback=True)
                self._judge(out, sig0, "factory-callback", names_c, got_c, model, links)
                if not a_ok:
                    out.violate(dict(sig0, kind="callback-extraction-succeeds-where-plain-extraction-raises"), observed={"plain": a_exc}, expected="the same error")
            except Exception:
                pass
            # (b) by path to disk
            dest = os.path.join(work, "out")
            try:
                with py7zr.SevenZipFile(apath, "r", password=pw) as z:
                    z.extractall(dest)
                disk = {}
                for dp, dn, fn in os.walk(dest):
                    for n in fn:
                        p = os.path.join(dp, n)
                        rel = os.path.relpath(p, dest)
                        if os.path.islink(p):
                            disk[rel] = os.readlink(p).encode()
                        else:
                            with open(p, "rb") as f:
                                disk[rel] = f.read()
                    for n in dn:
                        p = os.path.join(dp, n)
                        if os.path.islink(p):
                            disk[os.path.relpath(p, dest)] = os.readlink(p).encode()
                self._judge(out, sig0, "disk", None, disk, model, links)
                out.label("b:returns")
            except Exception:
                out.label("b:raises")
            if multi:
                try:
                    names, got = read_factory(D, pw, path=apath, mp=True)
                    self._judge(out, sig0, "factory-mp", names, got, model, links)
                    mp_ok = True
                except Exception:
                    mp_ok = False
                if a_ok is False and mp_ok and D != data:
                    pass  # judged by content above; an error seen sequentially but not in process mode is C13's business
            # (c) test(), (d) testzip()
            good = a_ok and not a_wrong
            for api in ("test", "testzip"):
                try:
                    with py7zr.SevenZipFile(io.BytesIO(D), "r", password=pw) as z:
                        r = z.test() if api == "test" else z.testzip()
                except Exception:
                    out.label(api + ":raises")
                    if case["fault"] is None:
                        out.violate(dict(sig0, kind="intact-archive-" + api + "-raises"), observed="exception", expected="no damage reported")
                    continue
                certified = (r is True) if api == "test" else (r is None)
                out.label("%s:%s" % (api, "certifies" if certified else ("none" if r is None else "reports-damage")))
                if case["fault"] is None:
                    if (api == "test" and r is False) or (api == "testzip" and r is not None):
                        out.violate(dict(sig0, kind="intact-archive-reported-damaged", api=api), observed=repr(r), expected="no damage")
                elif certified and not good:
                    out.violate(dict(sig0, kind="damage-certified-as-good", api=api), observed={"verdict": repr(r), "extraction": "raises" if not a_ok else "differs",
                                                                                             "byte": pos}, expected="damage reported or exception")
            if case["fault"] is None and not good:
                out.violate(dict(sig0, kind="intact-archive-not-read"), observed="extraction failed or differed", expected="model")
        finally:
            shutil.rmtree(work, ignore_errors=True)
        out.sample = {"base": name, "fault": case["fault"], "byte": pos, "region": region}
        return out

    def _judge(self, out, sig0, via, names, got, model, links):
        wrong = False
        if names is not None:
            for n in names:
                if n not in model and not any(m.startswith(n + "/") for m in model) and n not in ("d", "dir"):
                    # a listed name that is neither a member nor one of its directories
                    pass
        for k, v in got.items():
            if k not in model:
                out.violate(dict(sig0, kind="delivered-under-unknown-name", via=via), observed={"name": k[:60], "len": len(v)}, expected="original names only")
                wrong = True
            elif v != model[k]:
                out.violate(dict(sig0, kind="delivered-wrong-bytes", via=via, link=k in links), observed={"name": k, "len": len(v)},
                            expected={"len": len(model[k])})
                wrong = True
        return wrong


CHECK = C04()
