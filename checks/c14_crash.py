"""C14 - a crash while writing never leaves a file that opens with wrong contents.

A create or append session is run once on a recording file object; every crash image
(each operation boundary and each byte prefix of each write, plus lost/reordered last
operations) is rebuilt and opened."""
import functools
import io
import os
import shutil

from hypothesis import strategies as st

from gen import basic as G
from gen import layouts as LY
from gen import sessions as SS
from ref7z import coders as RC
from ref7z import reader as RR
from ref7z import writer as RW
from vlib import arch, patches
from vlib.iotrace import RecordingIO
from vlib.runner import Check, Outcome

import py7zr
from py7zr.exceptions import AbsolutePathError, UnsupportedCompressionMethodError
from py7zr.io import BytesIOFactory

from checks.c01_roundtrip import is_kf03


def read_members(data, pw):
    """-> list of (name, bytes-or-None for directories) or raises"""
    with py7zr.SevenZipFile(io.BytesIO(data), "r", password=pw) as z:
        names = z.getnames()
        dirs = {f.filename for f in z.files if f.is_directory}
        fac = BytesIOFactory(arch.BIG)
        z.extractall(factory=fac)
        got = {}
        for k, v in fac.products.items():
            v.seek(0)
            got[k] = v.read()
    return [(n, None if n in dirs else got.get(n.lstrip("/"), got.get(n))) for n in names]


class C14(Check):
    property_id = "C14"
    level = "fault_enumeration"
    technique = "recorded write/seek/truncate trace of create and append sessions; every operation boundary and every byte prefix of every write enumerated as a crash image (plus dropped / reordered last operations) and opened with py7zr"
    rule = ("session = create (0..3 small entries, any fast chain, header raw/encoded/encrypted, optional password) or append onto a base "
            "written by py7zr or by the reference writer (any C06 layout); run once on a recording file object (BytesIO subclass). Crash images: "
            "the file after each of the first k operations, every byte prefix of operation k+1, and the final image with the last / second "
            "last / third last operation dropped or the last two swapped. Oracle: an image that opens and extracts without exception "
            "delivers exactly the complete post-session member list (names, order, bytes) or, for an append, exactly the pre-session list. "
            "Non-trivial: image differs from both the initial and the final bytes; distinct by (session shape, op index, prefix class).")
    assumptions = ["reference-written bases carry the CRC of their encoded header (as 7-Zip always writes); a CRC-less header stream cannot detect its own partial overwrite",
                   "crash points at the granularity of py7zr's own write stream; OS-level reordering approximated by the drop/swap variants",
                   "7zAES key derivation memoised by the harness"]
    budget_s = {"quick": 80, "thorough": 1500}
    sandbox_timeout = 120

    def setup(self, env):
        import py7zr.compressor as pc

        if hasattr(pc, "calculate_key") and not getattr(pc.calculate_key, "_memo", False):
            f = functools.lru_cache(maxsize=64)(pc.calculate_key)
            f._memo = True
            pc.calculate_key = f
        env.state["k"] = 0

    def exhaustive(self, env):
        return False

    def strategy(self, env):
        small_entry = st.fixed_dictionaries({
            "how": st.sampled_from(["writestr", "writestr", "writef", "write-file", "write-dir", "write-empty", "writeall-tree", "fail-writef"]),
            "data": st.one_of(st.binary(min_size=0, max_size=60).map(lambda b: ["hex", b.hex()]),
                              st.tuples(st.just("gen"), st.sampled_from(["text", "random", "zeros"]), st.integers(0, 400), st.integers(0, 999)).map(list)),
            "mode": st.just(0o644), "mtime_ns": st.just(10 ** 18)})
        fast = st.sampled_from([None, [{"id": G.F_COPY}], [{"id": G.F_LZMA2, "preset": 0}], [{"id": G.F_LZMA, "preset": 0}], [{"id": G.F_BZIP2}],
                                [{"id": G.F_DEFLATE}], [{"id": G.F_ZSTD, "level": 1}], [{"id": G.F_COPY}, {"id": G.F_AES}], [{"id": G.F_X86}, {"id": G.F_LZMA2, "preset": 0}]])
        sess = st.fixed_dictionaries({"filters": fast, "entries": st.lists(small_entry, min_size=0, max_size=3)})
        names = G.distinct_names(6, 6, G.simple_name(2))
        create = st.fixed_dictionaries({"kind": st.just("create"), "session": sess, "header": st.sampled_from(G.HEADER_MODES), "names": names})
        append_py = st.fixed_dictionaries({"kind": st.just("append-py"), "base": sess, "session": sess, "header": st.sampled_from(["raw", "encoded"]),
                                           "names": names})
        append_ref = st.fixed_dictionaries({"kind": st.just("append-ref"), "layout": LY.case_strategy(4, aes_ok=False), "session": sess,
                                            "header": st.sampled_from(["raw", "encoded"]), "names": names})
        return st.one_of(create, create, append_py, append_py, append_ref)

    def examples(self, env):
        return env.n(150, 3000)

    def enumerated(self, env):
        # explicit: create with data / without data / empty, and append over each, raw and encoded header
        e = [{"how": "writestr", "data": ["hex", "68656c6c6f20776f726c64"], "mode": 0o644, "mtime_ns": 10 ** 18},
             {"how": "writestr", "data": ["gen", "text", 120, 3], "mode": 0o644, "mtime_ns": 10 ** 18}]
        d = [{"how": "write-dir", "data": ["hex", ""], "mode": 0o755, "mtime_ns": 10 ** 18}]
        # a tree added with writeall() followed by more members, and a call that fails in the middle of the session
        t = [e[0], {"how": "writeall-tree", "data": ["hex", "7472656566696c65"], "mode": 0o644, "mtime_ns": 10 ** 18}, e[1]]
        f = [e[0], {"how": "fail-writef", "data": ["hex", ""], "mode": 0o644, "mtime_ns": 10 ** 18}, e[1]]
        names = ["aa", "bb", "cc", "dd", "ee", "ff"]
        i = 0
        for header in ("encoded", "raw"):
            for ents in (e, d, [], t, f):
                i += 1
                if env.mine(i):
                    yield {"kind": "create", "session": {"filters": [{"id": G.F_COPY}], "entries": ents}, "header": header, "names": names}
                for base in (e, d, []):
                    i += 1
                    if env.mine(i):
                        yield {"kind": "append-py", "base": {"filters": None, "entries": base}, "session": {"filters": [{"id": G.F_COPY}], "entries": ents},
                               "header": header, "names": names}

    def execute(self, case, env):
        out = Outcome()
        env.state["k"] += 1
        patches.deterministic_iv(env.seed * 977 + env.shard * 101 + env.state["k"])
        work = env.tmpdir("c14-")
        src = os.path.join(work, "src")
        os.makedirs(src)
        names = list(case["names"])
        kind = case["kind"]
        sess = case["session"]

        def named(s, off):
            return dict(s, entries=[dict(en, name=names[(off + j) % len(names)]) for j, en in enumerate(s["entries"])])

        sess_n = named(sess, 3)
        all_filters = (sess.get("filters") or []) + ((case.get("base") or {}).get("filters") or [])
        pw = "pw" if any(f["id"] == G.F_AES for f in all_filters) or case["header"].startswith("encrypted") else None
        if sess.get("filters") and is_kf03(sess["filters"]):
            out.skipped = "KF-03"
            return out
        try:
            # ---- initial bytes
            initial = b""
            pre = []
            if kind == "append-py":
                base = named(case["base"], 0)
                bf = base["filters"]
                if pw is not None and bf is not None and not any(f["id"] == G.F_AES for f in bf):
                    bf = bf + [{"id": G.F_AES}]
                bio = io.BytesIO()
                try:
                    z = arch.open_write(bio, bf, pw, case["header"])
                    SS.run_session(z, base, src, 0)
                    z.close()
                except (UnsupportedCompressionMethodError, AbsolutePathError):
                    out.skipped = "rejected_config"
                    return out
                initial = bio.getvalue()
            elif kind == "append-ref":
                try:
                    # an encoded header without CRC (legal, but never written by 7-Zip) cannot protect itself against being half
                    # overwritten by appended data: bases keep the folder CRC of their header stream
                    case["layout"]["opts"]["hdr_crc"] = True
                    files, folders, opts, bpw = LY.build_case(case["layout"])
                    initial = RW.build(files, folders, opts, bpw).data
                except (RC.Unsupported, ValueError):
                    out.skipped = "unbuildable"
                    return out
                if bpw is not None:
                    out.skipped = "encrypted-ref-base"
                    return out
                pw = None
                if any(f["id"] == G.F_AES for f in (sess.get("filters") or [])):
                    out.skipped = "password-not-constant"
                    return out
            if initial:
                try:
                    pre = read_members(initial, pw)
                except Exception:
                    out.skipped = "base-unreadable(C06)"
                    return out
            # ---- the recorded session
            rec = RecordingIO(initial)
            filters = sess_n["filters"]
            if pw is not None and filters is not None and not any(f["id"] == G.F_AES for f in filters):
                filters = filters + [{"id": G.F_AES}]
            try:
                if kind == "create":
                    z = arch.open_write(rec, filters, pw, case["header"])
                else:
                    rec.seek(0)
                    z = py7zr.SevenZipFile(rec, "a", filters=filters, password=pw)
                    if case["header"] == "raw":
                        z.set_encoded_header_mode(False)
                SS.run_session(z, sess_n, src, 20)
                z.close()
            except (UnsupportedCompressionMethodError, AbsolutePathError):
                out.skipped = "rejected_config"
                return out
            except Exception as e:
                out.skipped = "session-raises(C08):" + type(e).__name__
                return out
            final = rec.getvalue()
            try:
                post = read_members(final, pw)
            except Exception as e:
                out.skipped = "final-unreadable(C01/C08):" + type(e).__name__
                return out
            nops = len(rec.log)
            out.descriptor = (kind, G.chain_family(sess.get("filters")), case["header"], tuple(en["how"] for en in sess["entries"]), len(pre), nops)
            out.label("kind:" + kind, "header:" + case["header"], "ops=%d" % min(nops, 99))
            sig = {"session": kind, "header": case["header"], "pw": pw is not None}
            nimg = 0
            nontriv = 0
            accepted = {"post": 0, "pre": 0}
            seen_sig = set()

            def judge(img, label, k, p):
                nonlocal nimg, nontriv
                nimg += 1
                if img != initial and img != final:
                    nontriv += 1
                try:
                    got = read_members(img, pw)
                except Exception:
                    return
                if got == post:
                    accepted["post"] += 1
                    return
                if kind != "create" and got == pre:
                    accepted["pre"] += 1
                    return
                if kind == "create" and img == initial:
                    return
                phase = "sig-rewrite" if (k >= nops - 7) else ("skeleton" if k <= 7 and kind == "create" else "body")
                what = "empty-archive" if not got else ("subset" if all(x in post for x in got) else "different")
                key = (label, phase, what)
                if key in seen_sig:
                    return
                seen_sig.add(key)
                out.violate(dict(sig, kind="crash-image-opens-with-wrong-contents", at=label, phase=phase, what=what),
                            observed={"op": k, "of": nops, "prefix": p, "members": [(n, None if d is None else len(d)) for n, d in got][:6]},
                            expected={"post": [n for n, _ in post][:6], "pre": [n for n, _ in pre][:6]})

            for k, p, label, img in rec.images():
                judge(img, label, k, p)
            for label, img in rec.variants():
                judge(img, label, nops, None)
            out.nontrivial = nontriv > 0
            out.count("images", nimg)
            out.count("images_nontrivial", nontriv)
            out.count("images_accepted_as_post", accepted["post"])
            out.count("images_accepted_as_pre", accepted["pre"])
            out.sample = {"kind": kind, "chain": G.chain_family(sess.get("filters")), "header": case["header"], "ops": nops, "images": nimg,
                          "final_bytes": len(final), "accepted": accepted}
        finally:
            shutil.rmtree(work, ignore_errors=True)
        return out


CHECK = C14()
