"""C17 - header values survive storage across their whole legal range.

Oracles: (i) py7zr round trip of every primitive, (ii) differential against the
reference codec written from the specification (both directions, including
non-minimal but conforming NUMBER encodings), (iii) whole-header round trips:
reference-written header -> py7zr Header.retrieve -> compare with the model ->
py7zr Header.write (raw and encoded) -> reference strict parse -> compare with the model.
"""
import io
import struct

from hypothesis import strategies as st

from gen import basic as G
from ref7z import codec as RC
from ref7z import reader as RR
from ref7z import writer as RW
from vlib.runner import Check, Outcome

import py7zr.archiveinfo as ai
from py7zr.helpers import ArchiveTimestamp

U64 = (1 << 64) - 1


def first_byte_class(b0):
    k = 0
    m = 0x80
    while k < 8 and b0 & m:
        k += 1
        m >>= 1
    return k


def py_write_num(v):
    bio = io.BytesIO()
    ai.write_uint64(bio, v)
    return bio.getvalue()


def py_read_num(b):
    bio = io.BytesIO(b)
    v = ai.read_uint64(bio)
    return v, bio.tell()


def check_number(out, v, length, tag):
    """v: value; length: forced encoding length or None"""
    # py7zr writes -> spec decoder and py7zr read it back
    try:
        w = py_write_num(v)
    except Exception as e:
        out.violate({"kind": "number-write-raises", "exc": type(e).__name__}, observed=repr(e), expected="encoding of %d" % v)
        return
    if len(w) > 9:
        out.violate({"kind": "number-too-long"}, observed=w.hex(), expected="<= 9 bytes for %d" % v)
    try:
        rv, rp = RC.dec_number(w, 0)
    except RC.ParseError as e:
        rv, rp = "ParseError:%s" % e, -1
    if rv != v or rp != len(w):
        out.violate({"kind": "number-write-differs-from-spec", "len": len(w)}, observed={"bytes": w.hex(), "spec_reads": rv},
                    expected=v)
    try:
        pv, pp = py_read_num(w)
    except Exception as e:
        pv, pp = "raises " + type(e).__name__, -1
    if pv != v or pp != len(w):
        out.violate({"kind": "number-roundtrip", "len": len(w)}, observed={"bytes": w.hex(), "py7zr_reads": pv}, expected=v)
    # every conforming encoding (also non-minimal) is read by py7zr
    try:
        enc = RC.enc_number(v, length)
    except ValueError:
        return
    try:
        pv, pp = py_read_num(enc + b"\xAA\x55")
    except Exception as e:
        pv, pp = "raises " + type(e).__name__, -1
    if pv != v or pp != len(enc):
        out.violate({"kind": "number-read-conforming", "len": len(enc), "minimal": len(enc) == RC.min_number_len(v)},
                    observed={"bytes": enc.hex(), "py7zr_reads": pv, "consumed": pp}, expected=v)


def low_patterns(k, seed):
    """k extra bytes: zeros, ones, positional, pseudo-random"""
    if k == 0:
        return [b""]
    import hashlib

    return [bytes(k), b"\xff" * k, bytes(range(1, k + 1)), hashlib.sha256(bytes([seed, k])).digest()[:k]]


class C17(Check):
    property_id = "C17"
    level = "exploration"
    technique = "exhaustive enumeration of NUMBER classes and small values + Hypothesis; differential against a spec-derived codec; whole-header round trip"
    rule = ("cases: (a) every first-byte value 0..255 x {zero, all-one, positional, random} low bytes decoded by py7zr and the "
            "spec decoder; (b) all values below 2^16 (quick) / 2^22 (thorough) in chunks, 2^k-1/2^k/2^k+1, random 64-bit values "
            "with every legal (also non-minimal) encoding length; (c) boolean vectors of every length 0..130 x patterns x "
            "all-defined shortcut; (d) names (every BMP scalar value and a stride through the astral planes as only/first/middle/last character, "
            "plus generated names), FILETIMEs, UINT32 lists; (e) whole headers built by the reference writer with "
            "partially defined vectors and extreme numbers, read by py7zr, rewritten by py7zr (raw and encoded) and re-read by "
            "the reference reader. Non-trivial: NUMBER >= 2^7 or non-minimal, vector length not a multiple of 8 or partially "
            "defined, name with a non-ASCII code point, header with >=1 undefined entry or >=9 files. distinct = hash of the case.")
    assumptions = ["ref7z.codec is written from 7zFormat.txt and validated by parsing the 7-Zip-written fixtures with all CRCs matching",
                   "primitives are exercised through py7zr.archiveinfo functions and Header/FilesInfo classes directly"]
    budget_s = {"quick": 55, "thorough": 900}

    def exhaustive(self, env):
        return False

    def enumerated(self, env):
        i = 0
        # (a) first byte classes
        for b0 in range(256):
            i += 1
            if env.mine(i):
                yield {"k": "firstbyte", "b0": b0}
        # (b) small values exhaustive in chunks of 4096
        top = (1 << 16) if env.quick else (1 << 22)
        for lo in range(0, top, 4096):
            i += 1
            if env.mine(i):
                yield {"k": "range", "lo": lo, "hi": lo + 4096}
        for kbit in range(65):
            i += 1
            if env.mine(i):
                yield {"k": "pow2", "bit": kbit}
        # (d) every BMP scalar value (and a stride through the astral planes) at each position of a name
        for lo in range(0, 0x10000, 0x800):
            i += 1
            if env.mine(i):
                yield {"k": "cprange", "lo": lo, "hi": lo + 0x800}
        for lo in range(0x10000, 0x110000, 0x10000):
            i += 1
            if env.mine(i):
                yield {"k": "cprange", "lo": lo, "hi": lo + 0x10000, "step": 0x101 if env.quick else 0x11}
        # (f) names around and beyond 2^16 UTF-16 code units
        for ln in (4095, 4096, 4097, 65534, 65535, 65536, 65537, 70000, 131073):
            for ch in ("n", "\u00e9", "\U0001f600"):
                i += 1
                if env.mine(i):
                    yield {"k": "name", "s": (ch * ln)[: ln if len(ch) == 1 else ln]}
        # (g) an encoded header whose packed form is larger than one I/O block (1 MiB): many long names of random astral characters
        i += 1
        if env.mine(i):
            yield {"k": "bigheader", "members": 190, "namelen": 4000, "seed": 5}
        # (c) boolean vectors
        for n in range(131):
            i += 1
            if env.mine(i):
                yield {"k": "bools", "n": n}

    def strategy(self, env):
        num = st.builds(lambda v, l: {"k": "num", "v": v, "len": l},
                        st.one_of(st.integers(0, U64), st.integers(0, 64).flatmap(lambda b: st.integers(0, (1 << b) - 1 if b else 0))),
                        st.one_of(st.none(), st.integers(1, 9)))
        name = st.one_of(G.rel_name(6, 24), st.text(st.characters(exclude_categories=["Cs"], exclude_characters="\x00"),
                                                     min_size=1, max_size=4096))
        names = name.map(lambda s: {"k": "name", "s": s})
        ft = st.integers(0, U64).map(lambda v: {"k": "filetime", "v": v})
        crcs = st.lists(st.integers(0, 0xFFFFFFFF), max_size=40).map(lambda l: {"k": "crcs", "v": l})
        bools = st.builds(lambda bits, sc: {"k": "boolvec", "bits": bits, "checkall": sc},
                          st.lists(st.booleans(), max_size=130), st.booleans())
        return st.one_of(num, num, names, ft, crcs, bools, header_cases(), header_cases())

    def examples(self, env):
        return env.n(600, 20000)

    # ------------------------------------------------------------------
    def execute(self, case, env):
        out = Outcome()
        k = case["k"]
        out.label("kind:" + k)
        if k == "firstbyte":
            b0 = case["b0"]
            kk = first_byte_class(b0)
            out.nontrivial = kk > 0
            out.descriptor = ("firstbyte", b0)
            for low in low_patterns(kk, b0):
                enc = bytes([b0]) + low
                want, _ = RC.dec_number(enc, 0)
                try:
                    pv, pp = py_read_num(enc + b"\x5a")
                except Exception as e:
                    pv, pp = "raises " + type(e).__name__, -1
                if pv != want or pp != len(enc):
                    out.violate({"kind": "number-read-conforming", "len": len(enc), "minimal": len(enc) == RC.min_number_len(want)},
                                observed={"bytes": enc.hex(), "py7zr_reads": pv, "consumed": pp}, expected=want)
                check_number(out, want, None, "fb")
                out.count("numbers")
        elif k == "range":
            out.nontrivial = case["hi"] > 128
            out.descriptor = ("range", case["lo"])
            for v in range(case["lo"], case["hi"]):
                w = py_write_num(v)
                rv, rp = RC.dec_number(w, 0)
                pv, pp = py_read_num(w)
                if rv != v or pv != v or rp != len(w) or pp != len(w) or len(w) > 9:
                    check_number(out, v, None, "range")
                out.count("numbers")
        elif k == "pow2":
            b = case["bit"]
            out.nontrivial = b >= 7
            for v in ((1 << b) - 1, 1 << b, (1 << b) + 1):
                if 0 <= v <= U64:
                    for ln in (None, RC.min_number_len(v) + 1, 9):
                        check_number(out, v, ln if ln is None or ln <= 9 else 9, "pow2")
                        out.count("numbers")
        elif k == "num":
            v, ln = case["v"], case["len"]
            out.nontrivial = v >= 128 or (ln is not None and ln > RC.min_number_len(v))
            if ln is not None and ln < RC.min_number_len(v):
                ln = None
            out.label("numlen:%d" % (ln or RC.min_number_len(v)), "nonminimal" if ln and ln > RC.min_number_len(v) else "minimal")
            check_number(out, v, ln, "hyp")
            out.count("numbers")
        elif k == "bools":
            n = case["n"]
            out.nontrivial = n % 8 != 0
            pats = [[True] * n, [False] * n]
            for i in range(n):
                pats.append([j == i for j in range(n)])
            import hashlib

            h = hashlib.shake_256(bytes([n])).digest(n + 1)
            pats.append([bool(h[j] & 1) for j in range(n)])
            for bits in pats:
                for checkall in (False, True):
                    self._boolvec(out, bits, checkall)
                    out.count("vectors")
        elif k == "boolvec":
            bits = case["bits"]
            out.nontrivial = len(bits) % 8 != 0 or (case["checkall"] and not all(bits))
            self._boolvec(out, bits, case["checkall"])
        elif k == "name":
            s = case["s"]
            out.nontrivial = any(ord(c) > 127 for c in s)
            out.descriptor = ("name", s)
            out.label(*["name:" + c for c in G.name_classes(s)])
            bio = io.BytesIO()
            ai.write_utf16(bio, s)
            w = bio.getvalue()
            ref = RC.enc_name(s)
            if w != ref:
                out.violate({"kind": "name-write-differs-from-spec"}, observed=w.hex()[:200], expected=ref.hex()[:200])
            for enc, tag in ((w, "own"), (ref, "spec")):
                try:
                    got = ai.read_utf16(io.BytesIO(enc + b"zz"))
                except Exception as e:
                    got = "raises " + type(e).__name__
                if got != s:
                    out.violate({"kind": "name-roundtrip", "src": tag, "long": len(s) > 1000}, observed=repr(got)[:200], expected=repr(s)[:200])
        elif k == "bigheader":
            import random as _r

            rng = _r.Random(case["seed"])
            names = ["d%03d/" % j + "".join(chr(rng.randrange(0x20000, 0x2A6D0)) for _ in range(case["namelen"])) for j in range(case["members"])]
            out.nontrivial = True
            out.descriptor = ("bigheader", case["members"], case["namelen"])
            out.label("header:over-one-block")
            import py7zr

            bio = io.BytesIO()
            try:
                with py7zr.SevenZipFile(bio, "w") as z:
                    for j, n in enumerate(names):
                        z.writestr(b"%d" % j, n)
                # (the encoded-header record itself is tiny: the packed header is the last pack stream in front of it)
                off, size = struct.unpack("<QQ", bio.getvalue()[12:28])
                size = off - sum(len(b"%d" % j) for j in range(len(names)))
                out.count("packed_header_bytes", size)
                bio.seek(0)
                with py7zr.SevenZipFile(bio, "r") as z:
                    got = z.getnames()
            except Exception as e:
                out.violate({"kind": "big-header-roundtrip-raises", "exc": type(e).__name__}, observed=repr(e)[:200], expected="names read back")
                return out
            if size <= (1 << 20):
                out.inconclusive = "packed header not above one block"
            if got != names:
                out.violate({"kind": "big-header-names-differ"}, observed={"n": len(got)}, expected={"n": len(names)})
        elif k == "cprange":
            # every scalar value of the range as first, middle, last and only character of a name
            out.nontrivial = True
            out.descriptor = ("cprange", case["lo"])
            out.label("name:codepoint-sweep")
            n = 0
            for cp in range(case["lo"], case["hi"], case.get("step", 1)):
                if 0xD800 <= cp <= 0xDFFF or cp == 0:
                    continue
                ch = chr(cp)
                for s in (ch, ch + "a", "a" + ch + "b", "a" + ch):
                    n += 1
                    ref = RC.enc_name(s)
                    bio = io.BytesIO()
                    ai.write_utf16(bio, s)
                    if bio.getvalue() != ref:
                        out.violate({"kind": "name-write-differs-from-spec", "sweep": True}, observed={"cp": hex(cp), "got": bio.getvalue().hex()}, expected=ref.hex())
                        break
                    try:
                        got = ai.read_utf16(io.BytesIO(ref + b"zz"))
                    except Exception as e:
                        got = "raises " + type(e).__name__
                    if got != s:
                        out.violate({"kind": "name-roundtrip", "sweep": True, "position": ["only", "first", "middle", "last"][(n - 1) % 4]},
                                    observed={"cp": hex(cp), "got": repr(got)[:60]}, expected=repr(s))
                        break
            out.count("names_swept", n)
        elif k == "filetime":
            v = case["v"]
            out.nontrivial = v > 0
            bio = io.BytesIO()
            ai.write_real_uint64(bio, ArchiveTimestamp(v))
            w = bio.getvalue()
            if w != struct.pack("<Q", v):
                out.violate({"kind": "filetime-write"}, observed=w.hex(), expected=struct.pack("<Q", v).hex())
            got = ai.read_real_uint64(io.BytesIO(w))[0]
            if got != v:
                out.violate({"kind": "filetime-roundtrip"}, observed=got, expected=v)
        elif k == "crcs":
            v = case["v"]
            out.nontrivial = len(v) > 0
            bio = io.BytesIO()
            ai.write_crcs(bio, v)
            w = bio.getvalue()
            if w != b"".join(struct.pack("<L", x) for x in v):
                out.violate({"kind": "crcs-write"}, observed=w.hex(), expected="LE32 list")
            got = ai.read_crcs(io.BytesIO(w), len(v))
            if got != v:
                out.violate({"kind": "crcs-roundtrip"}, observed=got, expected=v)
        elif k == "header":
            run_header_case(case, out)
        else:
            raise ValueError(k)
        return out

    def _boolvec(self, out, bits, checkall):
        n = len(bits)
        bio = io.BytesIO()
        try:
            ai.write_boolean(bio, list(bits), all_defined=checkall)
        except Exception as e:
            out.violate({"kind": "boolvec-write-raises", "exc": type(e).__name__}, observed=repr(e), expected="vector of %d" % n)
            return
        w = bio.getvalue()
        # spec decoder reads what py7zr wrote
        try:
            if checkall:
                got, p = RC.dec_defined(w, 0, n)
            else:
                got, p = RC.dec_bits(w, 0, n)
        except RC.ParseError as e:
            got, p = "ParseError %s" % e, -1
        if got != list(bits) or p != len(w):
            out.violate({"kind": "boolvec-write-differs-from-spec", "checkall": checkall}, observed={"bytes": w.hex(), "spec": got},
                        expected=list(bits))
        # py7zr reads its own and both spec encodings
        encs = [(w, "own")]
        if checkall:
            encs.append((RC.enc_defined(bits, True), "spec-shortcut"))
            encs.append((RC.enc_defined(bits, False), "spec-explicit"))
        else:
            encs.append((RC.enc_bits(bits), "spec"))
        for enc, tag in encs:
            bio = io.BytesIO(enc + b"\xff")
            try:
                got = ai.read_boolean(bio, n, checkall=checkall)
                pos = bio.tell()
            except Exception as e:
                got, pos = "raises " + type(e).__name__, -1
            if got != list(bits) or pos != len(enc):
                out.violate({"kind": "boolvec-read", "src": tag, "checkall": checkall},
                            observed={"bytes": enc.hex(), "read": got, "consumed": pos}, expected=list(bits))


# ------------------------------------------------------------------ whole headers

EXTREME = [0, 1, 127, 128, 255, 256, 16383, 16384, (1 << 21) - 1, 1 << 21, (1 << 28), (1 << 32) - 1, 1 << 32, (1 << 35) + 7,
           (1 << 42) - 1, (1 << 49), (1 << 56) - 1, 1 << 56, (1 << 63) - 1]


def header_cases():
    size = st.one_of(st.sampled_from(EXTREME), st.integers(0, 1 << 20))
    ftime = st.one_of(st.none(), st.integers(0, U64), st.sampled_from([0, 116444736000000000, U64, 1 << 63]))
    attr = st.one_of(st.none(), st.integers(0, 0xFFFFFFFF), st.sampled_from([0x20, 0x10, 0x81a48020, 0xFFFFFFFF]))
    f = st.fixed_dictionaries({"name": G.rel_name(3, 8), "es": st.booleans(), "mtime": ftime, "attr": attr, "size": size,
                               "crc": st.one_of(st.none(), st.integers(0, 0xFFFFFFFF))})
    files = st.lists(f, min_size=0, max_size=40, unique_by=lambda d: d["name"])
    return st.builds(lambda files, cuts, sc, mode, packcrc, fcrc: {"k": "header", "files": files, "cuts": cuts, "shortcut": sc,
                                                                    "mode": mode, "packcrc": packcrc, "fcrc": fcrc},
                     files, st.lists(st.integers(1, 5), max_size=3), st.booleans(), st.sampled_from(["raw", "encoded"]), st.booleans(),
                     st.lists(st.booleans(), max_size=4))


def build_model(case):
    files = []
    for f in case["files"]:
        d = {"name": f["name"], "es": bool(f["es"]), "ef": False, "mtime": f["mtime"], "attr": f["attr"],
             "ctime": None, "atime": None}
        if not d["es"]:
            d["size"] = f["size"]
            d["crc"] = f["crc"]
        files.append(d)
    data_files = [f for f in files if not f["es"]]
    # partition data files into folders according to cuts
    folders = []
    i = 0
    for c in case["cuts"]:
        if i >= len(data_files):
            break
        folders.append(data_files[i:i + c])
        i += c
    if i < len(data_files):
        folders.append(data_files[i:])
    fe = []
    for fidx, members in enumerate(folders):
        total = sum(m["size"] for m in members) & U64
        if sum(m["size"] for m in members) > U64:
            # keep the sum inside 64 bits: shrink sizes
            for m in members:
                m["size"] &= 0xFFFFFFFF
            total = sum(m["size"] for m in members)
        rec = {"coders": [{"m": "00", "props": None}], "packed": b"", "packsize": total, "packcrc": 0x12345678,
               "unpack_sizes": [total], "subs": [(m["size"], m["crc"] or 0) for m in members], "fcrc": False,
               "folder_crc_value": 0, "scrc": [m["crc"] is not None for m in members]}
        want_fcrc = case.get("fcrc") or []
        if fidx < len(want_fcrc) and want_fcrc[fidx] and members:
            # a CRC at folder level; with a single substream it *is* that member's CRC and no substream digest is stored
            rec["fcrc"] = True
            rec["folder_crc_value"] = (members[0]["crc"] if members[0]["crc"] is not None else 0xABCDEF01) if len(members) == 1 else 0x0F0E0D0C
            if len(members) == 1:
                rec["subs"] = [(members[0]["size"], rec["folder_crc_value"])]
                rec["scrc"] = [True]
        fe.append(rec)
    return files, fe


def model_view(files, fe):
    mf = [(f["name"], f["es"], f["mtime"], f["attr"]) for f in files]
    sizes = [s for f in fe for (s, _) in f["subs"]]
    crcs = [(c if d else None) for f in fe for ((_, c), d) in zip(f["subs"], f["scrc"])]
    return mf, sizes, crcs, [len(f["subs"]) for f in fe], [f["packsize"] for f in fe]


def py_view(h):
    mf = []
    for f in h.files_info.files:
        lw = f.get("lastwritetime")
        mf.append((f.get("filename"), bool(f.get("emptystream")), None if lw is None else int(lw), f.get("attributes")))
    if h.main_streams is None:
        return mf, [], [], [], []
    ss = h.main_streams.substreamsinfo
    folders = h.main_streams.unpackinfo.folders
    counts = list(ss.num_unpackstreams_folders)
    if ss.unpacksizes is not None:
        sizes = list(ss.unpacksizes)
    else:
        sizes = [fo.unpacksizes[-1] for fo in folders]
    crcs = [(c if d else None) for c, d in zip(ss.digests, ss.digestsdefined)]
    return mf, sizes, crcs, counts, list(h.main_streams.packinfo.packsizes)


def ref_view(P):
    mf = [(f["name"], f["es"], f["mtime"], f["attr"]) for f in P.files]
    sizes = [s for f in P.folders for s in f["sub_sizes"]]
    crcs = [c for f in P.folders for c in f["sub_crcs"]]
    return mf, sizes, crcs, [f["nsub"] for f in P.folders], list(P.packinfo["sizes"]) if P.packinfo else []


def first_diff(a, b):
    names = ["files", "sizes", "crcs", "counts", "packsizes"]
    for n, x, y in zip(names, a, b):
        if x != y:
            if isinstance(x, list) and isinstance(y, list) and len(x) == len(y):
                for i, (p, q) in enumerate(zip(x, y)):
                    if p != q:
                        return {"field": n, "index": i, "got": repr(p)[:120], "want": repr(q)[:120]}
            return {"field": n, "got": repr(x)[:160], "want": repr(y)[:160]}
    return None


def run_header_case(case, out):
    files, fe = build_model(case)
    n = len(files)
    undefined = sum(1 for f in files if f["mtime"] is None or f["attr"] is None)
    out.nontrivial = n >= 1 and (undefined > 0 or n >= 9)
    out.descriptor = ("header", n, undefined, len(fe), case["shortcut"], case["mode"], case["packcrc"],
                      tuple(sorted({RC.min_number_len(s) for f in fe for (s, _) in f["subs"]})))
    out.label("header:n>=9" if n >= 9 else "header:n<9", "header:partial" if 0 < undefined else "header:alldefined",
              "header:folders=%d" % len(fe), "header:" + case["mode"])
    opts = {"defined_shortcut": case["shortcut"], "pack_crc": case["packcrc"]}
    tree = RW.build_header_tree(files, fe, opts)
    raw = RW.serialize(tree)
    want = model_view(files, fe)
    # three-way: the reference reader must agree with the model, else the harness is wrong
    full = RW.seal(b"", raw)
    P = RR.parse(full, decode=False, header_only=True)
    rv = ref_view(P)
    if first_diff(rv, want) is not None or RR.hard_violations(P):
        raise AssertionError("ref7z disagrees with its own model: %r %r" % (first_diff(rv, want), P.violations))
    # (a) py7zr reads the reference header
    layout = {"partial": undefined > 0, "n9": n >= 9}
    try:
        h = ai.Header.retrieve(io.BytesIO(full), io.BytesIO(raw), 32)
        got = py_view(h) if h.files_info is not None else ([], [], [], [], [])
    except Exception as e:
        out.violate({"kind": "header-read-raises", "exc": type(e).__name__, "partial_crcs": not all(c is not None for c in want[2])},
                    observed=repr(e)[:200], expected="header parsed")
        return
    d = first_diff(got, want)
    if d is not None:
        out.violate({"kind": "header-read-differs", "field": d["field"]}, observed=d, expected="model")
        return
    # (b) py7zr rewrites it (raw / encoded); the reference reader must get the model back
    bio = io.BytesIO()
    bio.write(bytes(32))
    try:
        startpos, hlen, hcrc = h.write(bio, 32, encoded=(case["mode"] == "encoded"), encrypted=False)
    except Exception as e:
        out.violate({"kind": "header-write-raises", "exc": type(e).__name__, **layout}, observed=repr(e)[:200], expected="header written")
        return
    buf = bio.getvalue()
    nh = buf[startpos:startpos + hlen]
    image = RW.seal(buf[32:startpos], nh)
    try:
        P2 = RR.parse(image, decode=False, header_only=True)
    except RC.ParseError as e:
        out.violate({"kind": "header-rewrite-unparseable", "mode": case["mode"], **layout}, observed=str(e)[:200], expected="well-formed header")
        return
    hv = [v for v in RR.hard_violations(P2)]
    if hv:
        out.violate({"kind": "header-rewrite-malformed", "mode": case["mode"], "what": hv[0].split("(")[0], **layout}, observed=hv[:3],
                    expected="no structural violation")
        return
    d = first_diff(ref_view(P2), want)
    if d is not None:
        out.violate({"kind": "header-rewrite-differs", "field": d["field"], "mode": case["mode"], **layout}, observed=d, expected="model")
        return
    # (c) and py7zr reads its own rewrite identically
    try:
        h2 = ai.Header.retrieve(io.BytesIO(image), io.BytesIO(nh), 32)
        got2 = py_view(h2) if h2.files_info is not None else ([], [], [], [], [])
    except Exception as e:
        out.violate({"kind": "header-reread-raises", "exc": type(e).__name__, **layout}, observed=repr(e)[:200], expected="parsed")
        return
    d = first_diff(got2, want)
    if d is not None:
        out.violate({"kind": "header-reread-differs", "field": d["field"], **layout}, observed=d, expected="model")


CHECK = C17()
