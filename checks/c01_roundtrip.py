"""C01 - content round trip for every codec chain / header mode / target kind / block size."""
import os
import shutil

from hypothesis import strategies as st

from gen import basic as G
from vlib import arch, patches
from vlib.runner import Check, Outcome

import py7zr
from py7zr.exceptions import UnsupportedCompressionMethodError

APIS = ["writestr-bytes", "writestr-bytes", "writestr-str", "writestr-bytearray", "writestr-memoryview", "writef-bytesio", "writef-file", "writef-buffered"]
TARGETS = ["path", "pathlib", "bytesio", "file", "multivolume"]
BLOCKS = [None, None, 32768, 4096, 64, 17]
CHUNKS = [None, None, 65536, 4097, 100, 7, 1]

# chains the documentation lists verbatim (docs/api.rst "Possible filters value"): a constructor
# rejection of one of these is a violation, any other rejected chain is only counted
DOCUMENTED = {
    "Delta+LZMA2", "X86+LZMA2", "ARM+LZMA2", "X86+LZMA", "LZMA2", "LZMA", "BZip2", "Deflate", "ZStandard", "PPMd", "Brotli",
    "Delta+LZMA2+7zAES", "X86+LZMA2+7zAES", "LZMA+7zAES", "Deflate+7zAES", "default",
}


def conflict_free(names):
    s = set(names)
    for n in names:
        parts = n.split("/")
        for i in range(1, len(parts)):
            if "/".join(parts[:i]) in s:
                return False
    return True


def case_strategy(big_ok=True):
    def members(block):
        names = G.distinct_names(0, 6)
        return names.flatmap(lambda ns: st.tuples(*[
            st.fixed_dictionaries({"name": st.just(n), "data": G.contents(70000, big=big_ok, blocksize=block),
                                   "api": st.sampled_from(APIS), "offset": st.integers(1, 40)}) for n in ns]).map(list))

    def build(chain, header, target, block, chunk, volume, wmode):
        if header.startswith("encrypted") and chain["password"] is None:
            chain = dict(chain, password="pw")
            if chain["filters"] is not None and not any(f["id"] == G.F_AES for f in chain["filters"]):
                header = "encoded" if False else header
        return members(block).map(lambda ms: {"members": ms, "filters": chain["filters"], "password": chain["password"],
                                              "header": header, "target": target, "block": block, "chunk": chunk, "volume": volume, "wmode": wmode})

    return st.tuples(G.filter_chains(), st.sampled_from(G.HEADER_MODES), st.sampled_from(TARGETS), st.sampled_from(BLOCKS),
                     st.sampled_from(CHUNKS), st.sampled_from([64, 65, 100, 4096, 1 << 20]), st.sampled_from(["w", "w", "x"])).flatmap(lambda t: build(*t))


class C01(Check):
    property_id = "C01"
    level = "exploration"
    technique = "Hypothesis-generated member lists x filter chains x header modes x targets x block sizes + covering enumeration of chain families x boundary lengths; round-trip oracle"
    rule = ("case = members (0..6, names over BMP/astral/control/space/leading-dot/drive-like classes, contents as (texture,length,seed) "
            "with boundary-biased lengths) x filter chain from the documented grammar (with parameters) x password x header mode "
            "(raw/encoded/encrypted by flag/by setter) x target (path, pathlib, BytesIO, buffered file, multi-volume) x creation mode 'w' / 'x'  x patched I/O block "
            "size x patched extraction chunk limit x write API (writestr bytes/str/bytearray/memoryview, writef BytesIO/real file at an "
            "offset). Oracle: reopen, names in order, extractall(factory) bytes and extractall(path) bytes equal the model. Non-trivial: "
            ">=1 non-empty member and (non-default chain or boundary-class length or patched block/chunk). distinct by (chain with "
            "parameters, header, target, block, chunk, sorted size classes, name classes).")
    assumptions = ["codec libraries and multivolumefile are trusted", "block size / chunk limit set by attribute patching of get_default_blocksize / get_memory_limit",
                   "AES IV replaced by a seeded stream so archives are a function of the seed"]
    budget_s = {"quick": 70, "thorough": 1500}
    sandbox_timeout = 120

    def on_abnormal(self, case, res, env):
        out = super().on_abnormal(case, res, env)
        if res[0] != "hang" and case.get("filters"):
            # the interpreter died: KF-72 is decided by running pyppmd alone, in a process of its own, on this folder's input
            try:
                if arch.kf72(case["filters"], [arch.member_bytes(m) for m in case["members"]]):
                    for v in out.violations:
                        v["signature"]["kf72"] = True
            except Exception:
                pass
        return out

    def setup(self, env):
        env.state["iv"] = patches.deterministic_iv(env.seed * 7919 + env.shard)

    def enumerated(self, env):
        # covering pass: every chain family x every boundary length (one member), default header/target
        fams = []
        main_native = [[{"id": G.F_LZMA2, "preset": 1}], [{"id": G.F_LZMA, "preset": 1}]]
        for m in main_native:
            fams.append(m)
            fams.append([{"id": G.F_DELTA, "dist": 4}] + m)
            for b in G.BCJ_NATIVE:
                fams.append([{"id": b}] + m)
        alts = [{"id": G.F_BZIP2}, {"id": G.F_DEFLATE}, {"id": G.F_DEFLATE64}, {"id": G.F_COPY}, {"id": G.F_ZSTD, "level": 3},
                {"id": G.F_PPMD, "order": 6, "mem": 20}, {"id": G.F_BROTLI, "level": 4}]
        for a in alts:
            fams.append([a])
        for b in G.BCJ_ALT:
            fams.append([{"id": b}, {"id": G.F_COPY}])
            fams.append([{"id": b}, {"id": G.F_ZSTD, "level": 1}])
        # solid blocks whose members sit around the I/O block (patched to 1 KiB) behind decoders that hand back whole blocks
        # (Copy, 7zAES): one member leaves a read-ahead remainder, the next is served from it, the third needs another block
        k = 20000
        grid = [10, 300, 700, 900, 1100]
        import itertools as _it

        for sizes in _it.product(grid, repeat=4):
            for chain, pw in (([{"id": G.F_COPY}], None), ([{"id": G.F_COPY}, {"id": G.F_AES}], "pw")):
                k += 1
                if not env.mine(k) or (env.quick and pw and k % 4):
                    continue
                yield {"members": [{"name": "s%d.bin" % j, "data": ["gen", "random", n, k + j], "api": "writestr-bytes"} for j, n in enumerate(sizes)],
                       "filters": chain, "password": pw, "header": "raw", "target": "bytesio", "block": 1024, "chunk": [None, 64, 4096][k % 3], "volume": 64}
        lengths = list(G.BOUNDARY_LENGTHS)
        if not env.quick:
            lengths += G.BIG_LENGTHS
        idx = 0
        aes_every = 6 if env.quick else 2
        for fi, fam in enumerate(fams):
            for li, ln in enumerate(lengths):
                idx += 1
                if env.quick and (fi + li) % 3:
                    continue
                if not env.mine(idx):
                    continue
                tex = "x86" if any(f["id"] in G.BCJ_NATIVE for f in fam) else ("text" if ln % 2 else "random")
                aes = (idx % aes_every == 0)
                filters = fam + ([{"id": G.F_AES}] if aes else [])
                yield {"members": [{"name": "m.bin", "data": ["gen", tex, ln, idx], "api": "writestr-bytes"}], "filters": filters,
                       "password": "pw" if aes else None, "header": "encoded", "target": ["bytesio", "path", "pathlib", "file"][idx % 4], "block": None, "chunk": None,
                       "volume": 64, "cover": True, "wmode": "x" if idx % 3 == 0 else "w"}

    def strategy(self, env):
        return case_strategy(big_ok=not env.quick)

    def examples(self, env):
        return env.n(60, 2500)

    def execute(self, case, env):
        out = self._execute(case, env)
        arch.absorb_destructor_error()
        return arch.tag_kf47(out, [(case["filters"], [arch.member_bytes(m) for m in case["members"]])])

    def _execute(self, case, env):
        out = Outcome()
        members = case["members"]
        filters, password = case["filters"], case["password"]
        fam = G.chain_family(filters)
        lens = [G.content_len(m["data"]) for m in members]
        sc = sorted({G.size_class(n) for n in lens})
        ncls = sorted({c for m in members for c in G.name_classes(m["name"])})
        out.descriptor = (G.chain_id(filters), password is not None, case["header"], case["target"], case["block"], case["chunk"],
                          tuple(sc), tuple(ncls))
        boundary = any(c.endswith("edge") or c in ("aes-block", "0") for c in sc)
        out.nontrivial = any(n > 0 for n in lens) and (filters is not None or boundary or case["block"] is not None or case["chunk"] is not None)
        out.label("wmode:" + case.get("wmode", "w"))
        out.label("chain:" + fam, "header:" + case["header"], "target:" + case["target"], "block:%s" % case["block"], "chunk:%s" % case["chunk"])
        out.label(*["size:" + c for c in sc])
        out.label(*["name:" + c for c in ncls])
        out.sample = {"chain": G.chain_id(filters), "password": password is not None, "header": case["header"], "target": case["target"],
                      "block": case["block"], "chunk": case["chunk"], "members": [[m["name"][:40], m["data"][:3] if m["data"][0] == "gen" else "raw", m.get("api")] for m in members]}
        sig_base = {"wmode": case.get("wmode", "w"), "codec": main_codec(filters), "aes": bool(filters and any(f["id"] == G.F_AES for f in filters) or (filters is None and password))}
        wblock = case["block"] or (1 << 20)
        if any(n >= 2 * wblock for n in lens):
            sig_base["multiblock"] = True
        # bound the work of one case by its generated size, not by the clock: a 2 MiB member read in 1-byte pieces or written in
        # 64-byte blocks is millions of interpreter-level steps and says nothing new
        steps = sum(lens) // max(1, case["chunk"] or (1 << 27)) + sum(lens) // max(1, case["block"] or (1 << 20))
        if steps > 40000:
            out.skipped = "too-many-steps"
            return out
        if case["target"] == "multivolume" and sum(lens) // max(1, case.get("volume") or 1) > 900 and not case.get("pin_known"):
            # KF-45 (open, dependency): beyond ~900 volumes multivolumefile fails or crawls; constructed around and counted, pinned
            # by regress/C01/kf45.json
            out.skipped = "KF-45"
            return out
        if filters and is_kf03(filters) and not case.get("pin_known"):
            # KF-03 (open): Delta+BCJ in front of LZMA1 is written but cannot be decoded; constructed around, counted
            # (regress/C01/kf03.json pins it with "pin_known" so that every run reports the finding once)
            out.skipped = "KF-03"
            return out
        work = env.tmpdir("c01")
        model = [(m["name"], arch.member_bytes(m)) for m in members]
        tgt = arch.Target(case["target"], work, volume=case.get("volume"))
        try:
            with patches.blocksize(case["block"]) as bs_ok, patches.memory_limit(case["chunk"]) as ml_ok:
                if not bs_ok or not ml_ok:
                    out.inconclusive = "patch-unavailable"
                # ---- write
                try:
                    # 'x' (exclusive creation) is the other documented way to make a new archive
                    z = arch.open_write(tgt.for_write(), filters, password, case["header"], mode=case.get("wmode", "w"))
                except UnsupportedCompressionMethodError as e:
                    out.label("rejected_config")
                    out.nontrivial = False
                    if G.chain_family(filters) in DOCUMENTED:
                        out.violate({"kind": "documented-chain-rejected", "chain": fam}, observed=repr(e)[:200], expected="accepted")
                    return out
                try:
                    for m in members:
                        arch.write_member(z, m, work)
                    z.close()
                except UnsupportedCompressionMethodError as e:
                    arch.drain_compressors(z)
                    # the chain is only examined when the first member is written: same verdict as a rejection at open
                    out.label("rejected_config")
                    out.nontrivial = False
                    if G.chain_family(filters) in DOCUMENTED:
                        out.violate({"kind": "documented-chain-rejected", "chain": fam}, observed=repr(e)[:200], expected="accepted")
                    return out
                except Exception as e:
                    arch.drain_compressors(z)
                    cls, frame = arch.exc_sig(e)
                    sig = dict(sig_base, kind="write-raises", exc=cls, frame=frame)
                    if case["target"] == "multivolume":
                        # KF-45 (open, dependency): multivolumefile.MultiVolume keeps every volume open and its write() recurses
                        # once per volume: an archive of more than ~900 volumes cannot be written or read back
                        sig["target"] = "multivolume"
                        sig["volumes_over_900"] = max(sum(lens) // max(1, case.get("volume") or 1), tgt.volumes()) > 900
                    out.violate(sig, observed=repr(e)[:300], expected="archive written")
                    return out
                tgt.release()
                # ---- read back through a factory
                try:
                    names, got = arch.read_all(tgt.for_read(), password)
                except Exception as e:
                    cls, frame = arch.exc_sig(e)
                    sig = dict(sig_base, kind="read-raises", exc=cls, frame=frame)
                    if case["target"] == "multivolume" and tgt.volumes() > 900:
                        sig["target"] = "multivolume"  # KF-45
                        sig["volumes_over_900"] = True
                    out.violate(sig, observed=repr(e)[:300], expected="members delivered")
                    return out
                finally:
                    tgt.release()
                want_names = [n for n, _ in model]
                if names != want_names:
                    out.violate(dict(sig_base, kind="names-differ"), observed=[repr(n) for n in names][:8], expected=[repr(n) for n in want_names][:8])
                    return out
                for n, b in model:
                    g = got.get(n)
                    if g is None:
                        out.violate(dict(sig_base, kind="member-not-delivered", nameclass="+".join(G.name_classes(n))),
                                    observed={"name": repr(n), "keys": [repr(k) for k in list(got)[:6]]}, expected="bytes under the member's name")
                    elif g != b:
                        out.violate(dict(sig_base, kind="bytes-differ"),
                                    observed={"name": repr(n), "len": len(g), "first_diff": _first_diff(g, b)}, expected={"len": len(b)})
                # ---- read back to disk (second session)
                if conflict_free(want_names) and not out.violations:
                    dest = os.path.join(work, "out")
                    try:
                        with py7zr.SevenZipFile(tgt.for_read(), "r", password=password) as z2:
                            z2.extractall(dest)
                    except Exception as e:
                        cls, frame = arch.exc_sig(e)
                        out.violate(dict(sig_base, kind="extract-to-path-raises", exc=cls, frame=frame), observed=repr(e)[:300],
                                    expected="files written")
                        return out
                    finally:
                        tgt.release()
                    for n, b in model:
                        p = os.path.join(dest, n)
                        try:
                            with open(p, "rb") as f:
                                g = f.read()
                        except OSError as e:
                            out.violate(dict(sig_base, kind="file-missing-on-disk", nameclass="+".join(G.name_classes(n))),
                                        observed=repr(e)[:200], expected="file " + repr(n))
                            continue
                        if g != b:
                            out.violate(dict(sig_base, kind="disk-bytes-differ"),
                                        observed={"name": repr(n), "len": len(g), "first_diff": _first_diff(g, b)}, expected={"len": len(b)})
                    out.count("disk_sessions")
        finally:
            tgt.release()
            shutil.rmtree(work, ignore_errors=True)
        return out


def main_codec(filters):
    if filters is None:
        return "LZMA2"
    for f in filters:
        if f["id"] not in (G.F_DELTA, G.F_AES) and f["id"] not in G.BCJ_NATIVE:
            return G.FILTER_NAMES.get(f["id"], hex(f["id"]))
    return "none"


def is_kf03(filters):
    ids = [f["id"] for f in filters]
    return G.F_LZMA in ids and G.F_DELTA in ids and any(i in G.BCJ_NATIVE for i in ids)


def _first_diff(a, b):
    n = min(len(a), len(b))
    for i in range(n):
        if a[i] != b[i]:
            return i
    return n


CHECK = C01()
