"""C10 - listings tell the truth about the archive (without extracting anything first)."""
import io
import os
import shutil
import zlib

from hypothesis import strategies as st

from gen import basic as G
from gen import layouts as LY
from gen import sessions as SS
from ref7z import coders as RC
from ref7z import reader as RR
from ref7z import writer as RW
from vlib import arch, patches
from vlib.runner import REPO, Check, Outcome
from checks.c06_reader import FIXTURE_PW

import py7zr
from py7zr.compressor import SupportedMethods
from py7zr.exceptions import AbsolutePathError, UnsupportedCompressionMethodError
from py7zr.io import BytesIOFactory

from checks.c01_roundtrip import is_kf03


def crc(b):
    return zlib.crc32(b) & 0xFFFFFFFF


def display_names():
    return {m["id"].hex(): m["name"] for m in SupportedMethods.methods}


class C10(Check):
    property_id = "C10"
    level = "exploration"
    technique = "generated archives (py7zr sessions incl. appends, reference-written layouts); listing interfaces compared with the model, the reference reader's structure and a later extraction"
    rule = ("archive = py7zr history (1..3 sessions, any chain/header/password, files, empty files, dirs, links) or reference-written "
            "layout (any C06 layout). Checked before any extraction on a path-opened object: getnames == namelist == list() names == files "
            "names == model order; per member uncompressed == len(bytes), crc32 (when reported) == CRC32(bytes) and reported whenever the archive records one for the member (per the reference reader), is_directory <=> directory; "
            "getinfo(n) and getinfo(n+'/') find every name, absent names raise KeyError; archiveinfo(): uncompressed == sum of sizes, blocks == "
            "number of folders, solid <=> some folder holds > 1 stream, method_names == display names of the coders present (as sets); "
            "needs_password() <=> an AES coder is present or a password was supplied. Non-trivial: >= 2 members and (>= 2 folders or an empty "
            "entry before a data file or encryption or a non-LZMA coder); distinct by (source, coder set, folder counts, kinds).")
    assumptions = ["method display names are read from SupportedMethods.methods", "archiveinfo() exercised on path-opened archives only"]
    budget_s = {"quick": 70, "thorough": 1500}
    sandbox_timeout = 90

    def setup(self, env):
        patches.deterministic_iv(env.seed * 17 + env.shard)
        env.state["k"] = 0

    def strategy(self, env):
        py = SS.history(3, 4, aes=True).map(lambda h: {"src": "py", "history": h})
        ref = LY.case_strategy(7).map(lambda c: {"src": "ref", "layout": c})
        extra = st.lists(G.rel_name(3, 8), min_size=0, max_size=3)
        supplied = st.booleans()
        return st.tuples(st.one_of(py, py, ref), extra, supplied).map(lambda t: dict(t[0], absent=t[1], supply_pw=t[2]))

    def examples(self, env):
        return env.n(200, 4000)

    def _fixtures(self, env):
        # third-party archives (also ones py7zr cannot extract, e.g. BCJ2): the listing is compared with the reference reader's view of the header
        import glob

        i = 700
        for p in sorted(glob.glob(os.path.join(REPO, "tests/data/*.7z"))):
            i += 1
            if env.mine(i) and os.path.getsize(p) < 400000:
                yield {"src": "fixture", "name": os.path.basename(p)}

    def _fixture_case(self, case, env):
        out = Outcome()
        name = case["name"]
        pw = FIXTURE_PW.get(name)
        with open(os.path.join(REPO, "tests/data", name), "rb") as f:
            data = f.read()
        try:
            P = RR.parse(data, password=pw, decode=False)
        except Exception:
            out.skipped = "reference-reader-cannot-parse"
            return out
        if P.empty or any(m["name"] is None for m in P.files):
            out.skipped = "no-names"
            return out
        out.nontrivial = len(P.folders) >= 1
        out.descriptor = ("fixture", name)
        out.label("src:fixture")
        sig = {"src": "fixture"}
        work = env.tmpdir("c10-")
        try:
            apath = os.path.join(work, name)
            with open(apath, "wb") as f:
                f.write(data)
            try:
                with py7zr.SevenZipFile(apath, "r", password=pw) as z:
                    names = z.getnames()
                    listing = [(f.filename, f.is_directory) for f in z.list()]
                    ai = z.archiveinfo()
                    np_ = z.needs_password()
            except Exception as e:
                out.skipped = "py7zr-cannot-open:" + type(e).__name__  # C06 judges readability
                return out
            want = [m["name"].replace("\\", "/") for m in P.files]
            if names != want:
                out.violate(dict(sig, kind="names-differ", api="getnames"), observed=names[:6], expected=want[:6])
            if [n for n, _ in listing] != want:
                out.violate(dict(sig, kind="names-differ", api="list"), observed=[n for n, _ in listing][:6], expected=want[:6])
            if ai.blocks != len(P.folders):
                out.violate(dict(sig, kind="summary-blocks-differ", multi_input=len(P.packinfo["sizes"]) != len(P.folders) if P.packinfo else False),
                            observed=ai.blocks, expected=len(P.folders))
            counts = [f["nsub"] for f in P.folders]
            if bool(ai.solid) != any(c > 1 for c in counts):
                out.violate(dict(sig, kind="summary-solid-differs"), observed={"solid": ai.solid, "streams_per_folder": counts[:6]}, expected=any(c > 1 for c in counts))
            has_aes = any(c["m"] == RC.M_AES for f in P.folders for c in f["coders"]) or any(c["m"] == RC.M_AES for c in (P.header_coders or []))
            if bool(np_) != (has_aes or pw is not None):
                out.violate(dict(sig, kind="needs-password-wrong", aes=has_aes, supplied=pw is not None), observed=np_, expected=has_aes or pw is not None)
        finally:
            shutil.rmtree(work, ignore_errors=True)
        return out

    def enumerated(self, env):
        yield from self._aes_first(env)
        yield from self._fixtures(env)
        # a password supplied (also the empty one) for an archive without any encryption coder
        for j, spw in enumerate(("", "x")):
            if env.mine(650 + j):
                yield {"src": "py", "history": {"sessions": [{"filters": [{"id": G.F_COPY}], "entries": [
                    {"how": "writestr", "data": ["hex", "6162"], "mode": 0o644, "mtime_ns": 10 ** 18, "name": "plain.txt"}]}],
                    "header": "encoded", "target": "path", "password": None}, "absent": ["zz"], "supply_pw": False, "supply_anyway": spw}
        # empty archive and archives without streams
        if env.mine(1):
            yield {"src": "py", "history": {"sessions": [{"filters": None, "entries": []}], "header": "encoded", "target": "path", "password": None},
                   "absent": ["x"], "supply_pw": False}
        if env.mine(2):
            yield {"src": "py", "history": {"sessions": [{"filters": None, "entries": [{"how": "write-dir", "data": ["hex", ""], "mode": 0o755,
                                                                                      "mtime_ns": 10 ** 18, "name": "onlydir"}]}],
                                            "header": "raw", "target": "path", "password": None}, "absent": [], "supply_pw": True}
        # every single codec, with Delta / a BCJ filter, to pin the method-name table
        i = 2
        singles = [[{"id": G.F_BROTLI, "level": 1}], [{"id": G.F_DELTA, "dist": 2}, {"id": G.F_LZMA2, "preset": 0}], [{"id": G.F_IA64}, {"id": G.F_LZMA2, "preset": 0}],
                   [{"id": G.F_DEFLATE64}], [{"id": G.F_PPMD, "order": 4, "mem": 20}], [{"id": G.F_ZSTD, "level": 1}], [{"id": G.F_COPY}], [{"id": G.F_BZIP2}],
                   [{"id": G.F_DEFLATE}], [{"id": G.F_LZMA, "preset": 0}], [{"id": G.F_ARMT}, {"id": G.F_COPY}], [{"id": G.F_COPY}, {"id": G.F_AES}]]
        for f in singles:
            i += 1
            if env.mine(i):
                pw = "pw" if any(x["id"] == G.F_AES for x in f) else None
                yield {"src": "py", "history": {"sessions": [{"filters": f, "entries": [
                    {"how": "writestr", "data": ["gen", "text", 120, i], "mode": 0o644, "mtime_ns": 10 ** 18, "name": "m1"},
                    {"how": "writestr", "data": ["hex", "9d0ad96d"], "mode": 0o644, "mtime_ns": 10 ** 18, "name": "m2"}]}],
                    "header": "encoded", "target": "path", "password": pw}, "absent": ["m3", "m1x"], "supply_pw": bool(pw)}

    def _aes_first(self, env):
        # the encryption coder named first (py7zr accepts any position); opened with and without supplying the password
        i = 500
        for f in ([{"id": G.F_AES}, {"id": G.F_BZIP2}], [{"id": G.F_AES}, {"id": G.F_DEFLATE}], [{"id": G.F_AES}, {"id": G.F_ZSTD, "level": 1}],
                  [{"id": G.F_AES}, {"id": G.F_COPY}], [{"id": G.F_AES}], [{"id": G.F_LZMA2, "preset": 0}, {"id": G.F_AES}], None):
            for supply in (False, True):
                i += 1
                if env.mine(i):
                    yield {"src": "py", "history": {"sessions": [{"filters": f, "entries": [
                        {"how": "writestr", "data": ["gen", "text", 90, i], "mode": 0o644, "mtime_ns": 10 ** 18, "name": "m1"},
                        {"how": "writestr", "data": ["hex", "0a0b"], "mode": 0o644, "mtime_ns": 10 ** 18, "name": ".m2"}]}],
                        "header": "encoded", "target": "path", "password": "pw"}, "absent": ["m2", "m1/"], "supply_pw": supply}

    def execute(self, case, env):
        SS.RECORD.clear()
        out = self._execute(case, env)
        arch.absorb_destructor_error()
        # KF-47: failures of a Deflate64 folder whose input the inflate64 library itself cannot round-trip are marked as such
        return arch.tag_kf47(out, [(f, [m["data"] for m in added if m.get("kind") in ("file", "link") and m.get("data")]) for f, added in SS.RECORD])

    def _execute(self, case, env):
        if case.get("src") == "fixture":
            return self._fixture_case(case, env)
        out = Outcome()
        env.state["k"] += 1
        work = env.tmpdir("c10-")
        src = os.path.join(work, "src")
        os.makedirs(src)
        apath = os.path.join(work, "a.7z")
        try:
            pw = None
            if case["src"] == "py":
                h = case["history"]
                pw = h["password"]
                tgt = arch.Target("path", work, name="a.7z")
                model = []
                try:
                    for si, s in enumerate(h["sessions"]):
                        filters = s["filters"]
                        if filters and is_kf03(filters):
                            out.skipped = "KF-03"
                            return out
                        if pw is not None and filters is not None and not any(f["id"] == G.F_AES for f in filters):
                            filters = filters + [{"id": G.F_AES}]
                        z = arch.open_write(tgt.for_write("w" if si == 0 else "a"), filters, pw, h["header"], mode="w" if si == 0 else "a")
                        model.extend(SS.run_session(z, s, src, si * 10))
                        z.close()
                except (UnsupportedCompressionMethodError, AbsolutePathError):
                    out.skipped = "rejected_config"
                    return out
                with open(apath, "rb") as f:
                    data = f.read()
            else:
                try:
                    files, folders, opts, pw = LY.build_case(case["layout"])
                    data = RW.build(files, folders, opts, pw).data
                except (RC.Unsupported, ValueError):
                    out.skipped = "unbuildable"
                    return out
                with open(apath, "wb") as f:
                    f.write(data)
            P = RR.parse(data, password=pw)
            if P.errors or RR.hard_violations(P):
                out.skipped = "not-wellformed(C07)"
                return out
            members = [{"name": m["name"].replace("\\", "/"), "kind": m["kind"], "data": m["data"], "stored_crc": m.get("crc")} for m in P.members]
            names = [m["name"] for m in members]
            coder_ids = {c["m"] for f in P.folders for c in f["coders"]}
            has_aes = RC.M_AES in coder_ids
            counts = [f["nsub"] for f in P.folders]
            empties_first = any(m["kind"] in ("dir", "empty") and any(x["kind"] in ("file", "link") for x in members[i + 1:]) for i, m in enumerate(members))
            out.nontrivial = len(members) >= 2 and (len(P.folders) >= 2 or empties_first or has_aes or bool(coder_ids - {RC.M_LZMA, RC.M_LZMA2, RC.M_X86}))
            out.descriptor = (case["src"], tuple(sorted(coder_ids)), tuple(counts), "".join(m["kind"][0] for m in members), pw is not None)
            out.label("src:" + case["src"], "folders=%d" % len(P.folders), "aes" if has_aes else "noaes")
            out.sample = {"src": case["src"], "coders": sorted(coder_ids), "streams_per_folder": counts, "kinds": "".join(m["kind"][0] for m in members)}
            sig = {"src": case["src"]}
            supply = pw if (pw is not None and (case.get("supply_pw") or P.encoded and "06f10701" in str(P.header_coders))) else None
            # header-encrypted archives cannot be opened without the password at all
            if pw is not None and P.encoded and any(c["m"] == RC.M_AES for c in (P.header_coders or [])):
                supply = pw
            if case.get("supply_anyway") is not None and pw is None:
                supply = case["supply_anyway"]
            try:
                z = py7zr.SevenZipFile(apath, "r", password=supply)
            except Exception as e:
                cls, frame = arch.exc_sig(e)
                out.violate(dict(sig, kind="open-raises", exc=cls, frame=frame), observed=repr(e)[:200], expected="opened")
                return out
            try:
                try:
                    views = {"getnames": z.getnames(), "namelist": z.namelist(), "list": [f.filename for f in z.list()], "files": [f.filename for f in z.files]}
                except Exception as e:
                    cls, frame = arch.exc_sig(e)
                    out.violate(dict(sig, kind="listing-raises", exc=cls, frame=frame), observed=repr(e)[:200], expected="names")
                    return out
                for k, v in views.items():
                    if v != names:
                        out.violate(dict(sig, kind="names-differ", api=k), observed=v[:8], expected=names[:8])
                if out.violations:
                    return out
                for m, f, li in zip(members, z.files, z.list()):
                    size = len(m["data"])
                    for api, got in (("files.uncompressed", f.uncompressed), ("list.uncompressed", li.uncompressed)):
                        if got != size:
                            out.violate(dict(sig, kind="size-differs", api=api, member=m["kind"]), observed={"name": m["name"], "got": got}, expected=size)
                    for api, got in (("files.crc32", f.crc32), ("list.crc32", li.crc32)):
                        if got is not None and m["kind"] in ("file", "link") and got != crc(m["data"]):
                            out.violate(dict(sig, kind="crc-differs", api=api), observed={"name": m["name"], "got": got}, expected=crc(m["data"]))
                        # a CRC the archive records for the member (also the value 0) is reported, not dropped
                        if got is None and m["kind"] in ("file", "link") and m["stored_crc"] is not None:
                            out.violate(dict(sig, kind="stored-crc-not-reported", api=api, zero=m["stored_crc"] == 0, empty=len(m["data"]) == 0),
                                        observed={"name": m["name"], "got": None}, expected=m["stored_crc"])
                    for api, got in (("files.is_directory", f.is_directory), ("list.is_directory", li.is_directory)):
                        if bool(got) != (m["kind"] == "dir"):
                            out.violate(dict(sig, kind="dirflag-differs", api=api, member=m["kind"]), observed={"name": m["name"], "got": got}, expected=m["kind"] == "dir")
                seen = set()
                for n in names:
                    if n in seen:
                        continue
                    seen.add(n)
                    for q in (n, n + "/"):
                        try:
                            gi = z.getinfo(q)
                            if gi.filename != n:
                                out.violate(dict(sig, kind="getinfo-wrong-member"), observed={"asked": q, "got": gi.filename}, expected=n)
                        except KeyError:
                            out.violate(dict(sig, kind="getinfo-misses-listed-name", slash=q.endswith("/")), observed=q, expected="member")
                        except Exception as e:
                            out.violate(dict(sig, kind="getinfo-raises", exc=type(e).__name__), observed=repr(e)[:100], expected="member")
                for a in case.get("absent", []):
                    if a in names or a.rstrip("/") in names:
                        continue
                    try:
                        z.getinfo(a)
                        out.violate(dict(sig, kind="getinfo-finds-absent-name"), observed=a, expected="KeyError")
                    except KeyError:
                        pass
                    except Exception as e:
                        out.violate(dict(sig, kind="getinfo-raises", exc=type(e).__name__), observed=repr(e)[:100], expected="KeyError")
                # archive summary
                try:
                    ai = z.archiveinfo()
                except Exception as e:
                    cls, frame = arch.exc_sig(e)
                    out.violate(dict(sig, kind="archiveinfo-raises", exc=cls, frame=frame, empty=not members, nostreams=not P.folders),
                                observed=repr(e)[:200], expected="summary")
                    ai = None
                if ai is not None:
                    total = sum(len(m["data"]) for m in members)
                    if ai.uncompressed != total:
                        out.violate(dict(sig, kind="summary-total-differs"), observed=ai.uncompressed, expected=total)
                    if ai.blocks != len(P.folders):
                        out.violate(dict(sig, kind="summary-blocks-differ"), observed=ai.blocks, expected=len(P.folders))
                    if bool(ai.solid) != any(c > 1 for c in counts):
                        out.violate(dict(sig, kind="summary-solid-differs"), observed={"solid": ai.solid, "streams_per_folder": counts[:6]}, expected=any(c > 1 for c in counts))
                    dn = display_names()
                    want_methods = {dn.get(c, c) for c in coder_ids}
                    if set(ai.method_names) != want_methods:
                        missing = sorted(want_methods - set(ai.method_names))
                        extra = sorted(set(ai.method_names) - want_methods)
                        out.violate(dict(sig, kind="summary-methods-differ", missing="+".join(missing), extra="+".join(extra)),
                                    observed=ai.method_names, expected=sorted(want_methods))
                want_np = has_aes or supply is not None
                if bool(z.needs_password()) != want_np:
                    out.violate(dict(sig, kind="needs-password-wrong", aes=has_aes, supplied=supply is not None), observed=z.needs_password(), expected=want_np)
            finally:
                try:
                    z.close()
                except Exception:
                    pass
        finally:
            shutil.rmtree(work, ignore_errors=True)
        return out


CHECK = C10()
