"""C15 - a failed write call does not poison the archive."""
import contextlib
import errno
import io
import itertools
import os
import pathlib
import shutil

from hypothesis import strategies as st

from gen import basic as G
from vlib import arch
from vlib.runner import Check, Outcome

import py7zr
from py7zr.io import BytesIOFactory

CALLS = ["write", "writestr", "writef", "writeall"]
FAULTS = {
    "write": ["missing", "lstat-EACCES", "lstat-EIO", "open-EACCES", "open-EIO", "read-fails", "bad-arcname-type", "special-file"],
    "writestr": ["bad-arcname", "bad-arcname-abs", "bad-data-type"],
    "writef": ["bad-arcname", "text-mode-source", "read-fails", "bad-source-type"],
    "writeall": ["missing", "open-EACCES", "read-fails", "lstat-EACCES", "lstat-EIO"],
}
KS = [0, 1, 4095, 4096, 4097]


class Injected(OSError):
    pass


class FailingReader(io.BufferedIOBase):
    """binary source that raises after k bytes"""

    def __init__(self, data, k, counter):
        self.data = data
        self.k = k
        self.pos = 0
        self.counter = counter

    def readable(self):
        return True

    def seekable(self):
        return True

    def tell(self):
        return self.pos

    def seek(self, off, whence=0):
        if whence == 0:
            self.pos = off
        elif whence == 1:
            self.pos += off
        else:
            self.pos = len(self.data) + off
        return self.pos

    def read(self, n=-1):
        self.counter["reads"] += 1
        if self.pos >= self.k:
            raise Injected(errno.EIO, "injected read failure")
        end = len(self.data) if n is None or n < 0 else min(len(self.data), self.pos + n)
        end = min(end, self.k) if self.k > self.pos else end
        b = self.data[self.pos:end]
        self.pos = end
        return b


class FileProxy:
    def __init__(self, f, k, counter):
        self.f, self.k, self.counter, self.n = f, k, counter, 0

    def read(self, n=-1):
        self.counter["reads"] += 1
        if self.n >= self.k:
            raise Injected(errno.EIO, "injected read failure")
        b = self.f.read(n if (n is not None and n >= 0) else -1)
        b = b[: max(0, self.k - self.n)] if self.n + len(b) > self.k else b
        self.n += len(b)
        return b

    def __enter__(self):
        return self

    def __exit__(self, *a):
        self.f.close()

    def __getattr__(self, name):
        return getattr(self.f, name)


@contextlib.contextmanager
def inject(target, what, k, counter):
    """patch pathlib.Path.open / lstat for one path only"""
    target = os.path.abspath(str(target)) if target else None
    orig_open, orig_lstat = pathlib.Path.open, pathlib.Path.lstat

    def is_target(p):
        return target is not None and os.path.abspath(str(p)) == target

    def my_open(self, *a, **kw):
        if is_target(self):
            counter["opens"] += 1
            if counter.get("armed"):
                if what == "open-EACCES":
                    raise Injected(errno.EACCES, "injected", str(self))
                if what == "open-EIO":
                    raise Injected(errno.EIO, "injected", str(self))
                if what == "read-fails":
                    return FileProxy(orig_open(self, *a, **kw), k, counter)
        return orig_open(self, *a, **kw)

    def my_lstat(self, *a, **kw):
        if is_target(self):
            counter["lstats"] += 1
            if counter.get("armed"):
                if what == "lstat-EACCES":
                    raise Injected(errno.EACCES, "injected", str(self))
                if what == "lstat-EIO":
                    raise Injected(errno.EIO, "injected", str(self))
        return orig_lstat(self, *a, **kw)

    pathlib.Path.open, pathlib.Path.lstat = my_open, my_lstat
    try:
        yield
    finally:
        pathlib.Path.open, pathlib.Path.lstat = orig_open, orig_lstat


def content(i, big=False, crc0=False):
    if crc0 and not big:
        # members whose CRC-32 is 0 (empty, or forged): a digest section holding only zeros must still be written
        return b"" if i % 2 else G.force_crc(G.expand(["gen", "text", 36 + i, i]), 0)
    return G.expand(["gen", ["text", "random"][i % 2], 6000 if big else 40 + i * 13, i])


class C15(Check):
    property_id = "C15"
    level = "fault_enumeration"
    technique = "enumerated (histories of <= 3 calls: call kind x fault kind x position x k) and Hypothesis-generated write histories with exactly one injected fault; archive model of the successful calls; access counters on the failed source"
    rule = ("history = 1..5 calls over write / writestr / writef / writeall with exactly one fault injected into call i: source path missing; "
            "source is a FIFO; lstat or open of the source raising EACCES/EIO (pathlib.Path.open/lstat wrapped for that path only); read raising after k bytes "
            "(k in 0,1,4095,4096,4097; writef source or wrapped file); rejected arcname ('../x', absolute) or argument type; followed by 0..2 "
            "successful calls; closed by context manager, explicit close, or by the exception leaving the with-block (failing call last); other "
            "members ordinary or all with CRC-32 0 (empty / forged); Copy or LZMA2 filter. All histories of <= 3 calls are enumerated "
            "(call kind x fault x position x k x ending). Oracle: the injected exception (or ValueError for rejected arguments) reaches the "
            "caller; for open/stat/argument failures the closed archive contains exactly the successful calls' members, in order, intact, "
            "and the failed source is not opened or read again; for mid-read failures the closed file fails to open/extract or delivers "
            "only correct (name, bytes) pairs of the successful calls. Non-trivial: the fault is preceded or followed by a successful "
            "call; distinct by (call kinds, fault, position, k, ending).")
    assumptions = ["faults are injected through wrapped pathlib.Path.open/lstat and harness-owned BufferedIOBase sources"]
    budget_s = {"quick": 70, "thorough": 1200}
    sandbox_timeout = 60

    def setup(self, env):
        env.state["k"] = 0

    def exhaustive(self, env):
        return True

    def enumerated(self, env):
        i = 0
        for n in (1, 2, 3):
            for kinds in itertools.product(CALLS, repeat=n):
                for pos in range(n):
                    for fault in FAULTS[kinds[pos]]:
                        for k in (KS if fault == "read-fails" else [0]):
                            for end in ("with", "close", "with-escape"):
                                if end == "with-escape" and pos != n - 1:
                                    continue  # the exception leaves the with-block: nothing can follow the failing call
                                i += 1
                                if not env.mine(i):
                                    continue
                                if env.quick and n == 3 and (i // env.nshards) % 3:
                                    continue
                                yield {"calls": list(kinds), "fault_at": pos, "fault": fault, "k": k, "end": end, "filter": "copy" if i % 2 else "lzma2"}
        # the same faults with a multi-volume target
        for kinds in (["writestr", "writef", "writestr"], ["writestr", "write", "writestr"], ["write", "writestr"], ["writef"]):
            for pos in range(len(kinds)):
                for fault in FAULTS[kinds[pos]]:
                    for k in ([0, 4096] if fault == "read-fails" else [0]):
                        i += 1
                        if env.mine(i):
                            yield {"calls": list(kinds), "fault_at": pos, "fault": fault, "k": k, "end": "close", "filter": "copy", "target": "multivolume"}
        # zero-length sources that cannot be opened
        for n in (1, 2):
            for kinds in itertools.product(["write", "writestr"], repeat=n):
                for pos in range(n):
                    if kinds[pos] != "write":
                        continue
                    for fault in ("open-EACCES", "open-EIO"):
                        for end in ("with", "close"):
                            i += 1
                            if env.mine(i):
                                yield {"calls": list(kinds), "fault_at": pos, "fault": fault, "k": 0, "end": end, "filter": "copy" if i % 2 else "lzma2", "empty_src": True}
        # sources failing midway while every other member has CRC-32 0 (empty or forged contents)
        for n in (2, 3):
            for kinds in itertools.product(["writestr", "writef", "write"], repeat=n):
                for pos in range(n):
                    if kinds[pos] == "writestr":
                        continue
                    for k in (1, 37, 4096):
                        i += 1
                        if env.mine(i):
                            yield {"calls": list(kinds), "fault_at": pos, "fault": "read-fails", "k": k, "end": "close", "filter": "copy" if i % 2 else "lzma2", "crc0": True}

    def strategy(self, env):
        def build(kinds, pos, fidx, k, end, flt):
            pos = pos % len(kinds)
            faults = FAULTS[kinds[pos]]
            return {"calls": kinds, "fault_at": pos, "fault": faults[fidx % len(faults)], "k": k, "end": end, "filter": flt}

        return st.builds(build, st.lists(st.sampled_from(CALLS), min_size=1, max_size=5), st.integers(0, 4), st.integers(0, 10),
                         st.one_of(st.sampled_from(KS), st.integers(0, 7000)), st.sampled_from(["with", "close", "with-escape"]), st.sampled_from(["copy", "lzma2", "default"]))

    def examples(self, env):
        return env.n(60, 1500)

    def execute(self, case, env):
        out = Outcome()
        calls, pos, fault, k = case["calls"], case["fault_at"], case["fault"], case["k"]
        out.nontrivial = len(calls) >= 2
        out.descriptor = (tuple(calls), pos, fault, k if fault == "read-fails" else None, case["end"], case["filter"])
        out.label("fault:" + fault, "call:" + calls[pos], "n=%d" % len(calls), "end:" + case["end"], "target:" + case.get("target", "bytesio"))
        out.sample = dict(case)
        env.state["k"] += 1
        work = env.tmpdir("c15-")
        src = os.path.join(work, "src")
        os.makedirs(src)
        filters = {"copy": [{"id": G.F_COPY}], "lzma2": [{"id": G.F_LZMA2, "preset": 0}], "default": None}[case["filter"]]
        sig = {"call": calls[pos], "fault": fault, "position": "first" if pos == 0 else ("last" if pos == len(calls) - 1 else "middle")}
        counter = {"opens": 0, "lstats": 0, "reads": 0, "armed": False}
        model = []
        midread = fault == "read-fails"
        seen_exc = None
        escaped = None
        bio = io.BytesIO()
        target_path = None
        try:
            # prepare sources
            plans = []
            for i, c in enumerate(calls):
                big = midread and i == pos
                data = content(i, big, case.get("crc0", False))
                if i == pos and case.get("empty_src"):
                    data = b""  # a zero-length source: its failure to open must be reported like any other
                name = "m%d.bin" % i
                if c == "write":
                    p = os.path.join(src, "f%d.bin" % i)
                    with open(p, "wb") as f:
                        f.write(data)
                    plans.append((c, p, name, data))
                elif c == "writeall":
                    d = os.path.join(src, "tree%d" % i)
                    os.makedirs(os.path.join(d, "sub"))
                    with open(os.path.join(d, "a.txt"), "wb") as f:
                        f.write(data)
                    with open(os.path.join(d, "sub", "b.txt"), "wb") as f:
                        f.write(data[::-1])
                    plans.append((c, d, "t%d" % i, data))
                else:
                    plans.append((c, None, name, data))
            c, p, name, data = plans[pos]
            if c == "write":
                target_path = p
            elif c == "writeall":
                target_path = os.path.join(p, "sub", "b.txt")
            if fault == "missing":
                if c == "write":
                    os.unlink(p)
                else:
                    shutil.rmtree(p)
            if fault == "special-file":
                os.unlink(p)
                os.mkfifo(p)  # neither file, directory nor link: the call is refused
            mv = None
            if case.get("target") == "multivolume":
                # a target that supports neither truncate() nor much else: what a failed call leaves behind must not depend on it
                import multivolumefile

                mv = multivolumefile.MultiVolume(os.path.join(work, "v.7z"), mode="wb", volume=1 << 20)
                z = py7zr.SevenZipFile(mv, "w", filters=filters)
            else:
                z = py7zr.SevenZipFile(bio, "w", filters=filters)
            try:
                with inject(target_path, fault, k, counter):
                    for i, (c, p, name, data) in enumerate(plans):
                        failing = i == pos
                        counter["armed"] = failing
                        try:
                            if c == "write":
                                if failing and fault == "bad-arcname-type":
                                    z.write(12345)
                                else:
                                    z.write(p, name)
                                if not failing or True:
                                    added = [(name, data)]
                            elif c == "writeall":
                                z.writeall(p, name)
                                added = [(name, None), (name + "/a.txt", data), (name + "/sub", None), (name + "/sub/b.txt", data[::-1])]
                            elif c == "writestr":
                                if failing and fault == "bad-arcname":
                                    z.writestr(data, "../" + name)
                                elif failing and fault == "bad-arcname-abs":
                                    z.writestr(data, "/abs/" + name)
                                elif failing and fault == "bad-data-type":
                                    z.writestr(12345, name)
                                else:
                                    z.writestr(data, name)
                                added = [(name, data)]
                            else:
                                if failing and fault == "bad-arcname":
                                    z.writef(io.BytesIO(data), "a/../../" + name)
                                elif failing and fault == "text-mode-source":
                                    z.writef(io.StringIO("text"), name)
                                elif failing and fault == "bad-source-type":
                                    z.writef(12345, name)
                                elif failing and fault == "read-fails":
                                    z.writef(FailingReader(data, k, counter), name)
                                else:
                                    z.writef(io.BytesIO(data), name)
                                added = [(name, data)]
                            if failing:
                                # the call did not fail: a fault that happens not to bite (e.g. k beyond the data) is simply a success
                                if fault in ("read-fails",) and k >= len(data):
                                    model.extend(added)
                                else:
                                    out.violate(dict(sig, kind="fault-not-reported"), observed="call returned normally", expected="exception reaches the caller")
                                    model.extend(added)
                            else:
                                model.extend(added)
                        except Exception as e:
                            if not failing:
                                cls, frame = arch.exc_sig(e)
                                out.violate(dict(sig, kind="later-call-raises" if i > pos else "earlier-call-raises", exc=cls, frame=frame),
                                            observed=repr(e)[:200], expected="successful call")
                                break
                            seen_exc = e
                            snapshot = dict(counter)
                            if case["end"] == "with-escape":
                                escaped = e
                                break  # the exception leaves the with-block
                        finally:
                            counter["armed"] = False
                    # close
                    try:
                        if case["end"] == "with-escape" and escaped is not None:
                            z.__exit__(type(escaped), escaped, escaped.__traceback__)
                        elif case["end"] in ("with", "with-escape"):
                            z.__exit__(None, None, None)
                        else:
                            z.close()
                    except Exception as e:
                        cls, frame = arch.exc_sig(e)
                        if not midread:
                            out.violate(dict(sig, kind="close-raises", exc=cls, frame=frame), observed=repr(e)[:200], expected="archive closed")
                        out.label("close:raises")
                        return out
            finally:
                pass
            # ---- the exception that reached the caller
            if seen_exc is not None:
                if fault in ("bad-arcname", "bad-arcname-abs", "bad-data-type", "text-mode-source", "bad-source-type", "bad-arcname-type", "special-file"):
                    if not isinstance(seen_exc, (ValueError, TypeError)):
                        out.violate(dict(sig, kind="wrong-exception"), observed=repr(seen_exc)[:200], expected="ValueError")
                elif fault == "missing":
                    if not isinstance(seen_exc, (OSError, ValueError)):
                        out.violate(dict(sig, kind="wrong-exception"), observed=repr(seen_exc)[:200], expected="OSError/ValueError")
                elif not isinstance(seen_exc, Injected):
                    out.violate(dict(sig, kind="wrong-exception"), observed=repr(seen_exc)[:200], expected="the injected OSError")
                # not retried behind the caller's back
                if target_path is not None and fault not in ("missing", "special-file"):
                    if counter["opens"] > snapshot["opens"] or counter["reads"] > snapshot["reads"]:
                        out.violate(dict(sig, kind="failed-source-touched-again"), observed={"after": dict(counter), "at_failure": snapshot}, expected="no further open/read")
            # ---- what is in the archive
            if mv is not None:
                mv.close()
                import glob as _g

                data_bytes = b"".join(open(pth, "rb").read() for pth in sorted(_g.glob(os.path.join(work, "v.7z.*"))))
            else:
                data_bytes = bio.getvalue()
            try:
                with py7zr.SevenZipFile(io.BytesIO(data_bytes)) as r:
                    names = r.getnames()
                    dirs = {f.filename for f in r.files if f.is_directory}
                    fac = BytesIOFactory(arch.BIG)
                    r.extractall(factory=fac)
                    got = {}
                    for kk, v in fac.products.items():
                        v.seek(0)
                        got[kk] = v.read()
            except Exception as e:
                if midread:
                    out.label("midread:archive-unreadable")
                    return out
                cls, frame = arch.exc_sig(e)
                out.violate(dict(sig, kind="archive-unreadable-after-failed-call", exc=cls, frame=frame), observed=repr(e)[:200], expected="successful members readable")
                return out
            want_names = [n for n, _ in model]
            if midread:
                # at least: never wrong contents under a name of a successful call, nor data under the failed name that is not a prefix-free lie
                for n, d in model:
                    if d is not None and n in got and got[n] != d:
                        out.violate(dict(sig, kind="midread-wrong-contents"), observed={"name": n, "len": len(got[n])}, expected={"len": len(d)})
                failed_name = plans[pos][2]
                if failed_name in got and plans[pos][0] != "writeall" and got[failed_name] != plans[pos][3]:
                    out.violate(dict(sig, kind="midread-partial-member-delivered-as-complete"), observed={"name": failed_name, "len": len(got[failed_name])},
                                expected="error or complete content")
                return out
            if names != want_names and plans[pos][0] == "writeall" and seen_exc is not None:
                # writeall is a loop of write() calls over a tree: what it had completely written before the failing entry cannot be
                # taken back out of a solid stream.  Accept a prefix (in walk order) of the failed call's members, each intact.
                tname, tdata = plans[pos][2], plans[pos][3]
                full = [(tname, None), (tname + "/a.txt", tdata), (tname + "/sub", None), (tname + "/sub/b.txt", tdata[::-1])]
                before = [m for m in model if not m[0].startswith(tname)]
                idx = sum(1 for (c2, p2, n2, d2) in plans[:pos] for _ in ([1] if c2 != "writeall" else [1, 2, 3, 4]))
                for cut in range(len(full)):
                    cand = model[:idx] + full[:cut] + model[idx:]
                    if names == [n for n, _ in cand]:
                        model = cand
                        want_names = names
                        out.label("writeall:partial-prefix-%d" % cut)
                        break
            if names != want_names:
                out.violate(dict(sig, kind="members-differ-after-failed-call"), observed=names, expected=want_names)
                return out
            for n, d in model:
                if d is None:
                    if n not in dirs:
                        out.violate(dict(sig, kind="directory-member-wrong"), observed=n, expected="directory")
                elif got.get(n) != d:
                    out.violate(dict(sig, kind="bytes-differ-after-failed-call"), observed={"name": n, "len": len(got.get(n, b""))}, expected={"len": len(d)})
        finally:
            shutil.rmtree(work, ignore_errors=True)
        return out


CHECK = C15()
