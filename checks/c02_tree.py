"""C02 - directory tree round trip with metadata (writeall -> extractall, shutil front end)."""
import functools
import os
import shutil
import stat

from hypothesis import strategies as st

from gen import basic as G
from vlib import arch, patches
from vlib.runner import Check, Outcome

import py7zr

FILE_MODES = [0o644, 0o600, 0o400, 0o755, 0o711, 0o444, 0o664, 0o700, 0o640, 0o777, 0o500]
DIR_MODES = [0o755, 0o700, 0o750, 0o500, 0o555, 0o711, 0o775, 0o777]
SMALL = ["a", "b", "c", "d"]
PREFIXED = ["ab", "a_old", "a.1", "d1", "d10", "b ", "c-"]


def tree_strategy():
    # names that extend a sibling's name (a/ab, d1/d10): string-prefix tests on paths confuse them
    name = st.one_of(st.sampled_from(SMALL), st.sampled_from(SMALL), st.sampled_from(PREFIXED), G.component(10, fs_safe=True))
    mtime = st.one_of(st.integers(1, 4102444800).map(lambda s: s * 10 ** 9), st.integers(10 ** 9, 4102444800 * 10 ** 9),
                      st.sampled_from([978307200 * 10 ** 9 + 123456700, 2147483648 * 10 ** 9 + 999999900, 86400 * 10 ** 9 + 100, 0, 0, 10 ** 9]))
    leaf = st.fixed_dictionaries({"kind": st.just("file"), "name": name, "data": G.contents(3000), "mode": st.one_of(st.sampled_from(FILE_MODES), st.integers(0o400, 0o777)), "mtime_ns": mtime})

    def node(children):
        return st.fixed_dictionaries({"kind": st.just("dir"), "name": name, "mode": st.one_of(st.sampled_from(DIR_MODES), st.integers(0o500, 0o777).map(lambda m: m | 0o100)), "mtime_ns": mtime,
                                      "children": st.lists(children, min_size=0, max_size=4, unique_by=lambda c: c["name"])})

    tree = st.recursive(leaf, node, max_leaves=10)
    root = st.fixed_dictionaries({"kind": st.just("dir"), "name": st.sampled_from(SMALL + ["root", "a.b"]), "mode": st.sampled_from([0o755, 0o700, 0o750]),
                                  "mtime_ns": mtime, "children": st.lists(tree, min_size=0, max_size=4, unique_by=lambda c: c["name"])})
    link = st.fixed_dictionaries({"at": st.integers(0, 50), "to": st.integers(0, 50), "name": st.sampled_from(["l", "m", "lnk", "a", "z"]),
                                  "to_link": st.one_of(st.none(), st.none(), st.integers(0, 3))})
    return st.fixed_dictionaries({
        "root": root, "links": st.lists(link, max_size=3),
        "arcname": st.sampled_from([None, None, "given", "x/y"]),
        "dereference": st.sampled_from([False, False, False, True]),
        "password": st.sampled_from([None, None, None, None, "pw"]),
        "entry": st.sampled_from(["writeall", "writeall", "writeall", "shutil"]),
        "source": st.sampled_from(["relative", "relative", "absolute"]),
        # I/O block size of the writer (harness patch): files of a few KiB then span several blocks, as files over 1 MiB do by default
        "block": st.sampled_from([None, None, 1024, 4096]),
        "cwd": st.sampled_from(["parent", "parent", "parent", "inside"]), "cwd_at": st.integers(0, 8),
    })


def flatten(node, prefix=()):
    """-> list of (path tuple, node) pre-order"""
    here = prefix + (node["name"],)
    out = [(here, node)]
    for c in node.get("children", []):
        out.extend(flatten(c, here))
    return out


def relpath_text(from_dir, to_path):
    """link text from a directory (tuple) to a target (tuple), normalised"""
    i = 0
    while i < len(from_dir) and i < len(to_path) and from_dir[i] == to_path[i]:
        i += 1
    parts = [".."] * (len(from_dir) - i) + list(to_path[i:])
    return "/".join(parts) if parts else "."


def place_links(case):
    """resolve link requests against the tree: returns list of (link path tuple, text, target path tuple)"""
    nodes = flatten(case["root"])
    dirs = [p for p, n in nodes if n["kind"] == "dir"]
    used = {p for p, n in nodes}
    out = []
    for L in case["links"]:
        d = dirs[L["at"] % len(dirs)]
        tpath, tnode = nodes[L["to"] % len(nodes)]
        lp = d + (L["name"],)
        if lp in used:
            continue
        if L.get("to_link") is not None and out and not case["dereference"]:
            # a link whose target is an earlier link (kept verbatim: the chain must survive, not be collapsed to the final target)
            tpath = out[L["to_link"] % len(out)][0]
            text = relpath_text(d, tpath)
            used.add(lp)
            out.append((lp, text, tpath, "link"))
            continue
        if tpath == lp[:len(tpath)] and case["dereference"]:
            continue  # link to an ancestor: no finite image under dereference
        text = relpath_text(d, tpath)
        used.add(lp)
        out.append((lp, text, tpath, tnode["kind"]))
    if case["dereference"]:
        # a finite image exists only without cycles: a link to a directory is kept only if no link lives beneath that directory
        keep = []
        for (lp, text, tpath, tk) in out:
            if tk == "dir" and any(o[0][:len(tpath)] == tpath for o in out):
                continue
            keep.append((lp, text, tpath, tk))
        out = keep
    return [(lp, text, tpath) for (lp, text, tpath, tk) in out]


def materialise(case, base):
    nodes = flatten(case["root"])
    links = place_links(case)
    for p, n in nodes:
        full = os.path.join(base, *p)
        if n["kind"] == "dir":
            os.makedirs(full, exist_ok=True)
        else:
            with open(full, "wb") as f:
                f.write(G.expand(n["data"]))
    for lp, text, _ in links:
        os.symlink(text, os.path.join(base, *lp))
    # modes and times bottom-up so that creating children does not disturb them
    for p, n in sorted(nodes, key=lambda x: -len(x[0])):
        full = os.path.join(base, *p)
        os.chmod(full, n["mode"])
    for p, n in sorted(nodes, key=lambda x: -len(x[0])):
        full = os.path.join(base, *p)
        os.utime(full, ns=(n["mtime_ns"], n["mtime_ns"]))
    return nodes, links


def scan(root):
    """{relative path: (kind, bytes|text|None, mode, mtime_ns)}"""
    out = {}
    for dp, dn, fn in os.walk(root):
        for n in dn + fn:
            p = os.path.join(dp, n)
            st_ = os.lstat(p)
            rel = os.path.relpath(p, root)
            if stat.S_ISLNK(st_.st_mode):
                out[rel] = ("link", os.readlink(p), None, None)
            elif stat.S_ISDIR(st_.st_mode):
                out[rel] = ("dir", None, stat.S_IMODE(st_.st_mode), st_.st_mtime_ns)
            else:
                with open(p, "rb") as f:
                    out[rel] = ("file", f.read(), stat.S_IMODE(st_.st_mode), st_.st_mtime_ns)
        # do not descend into symlinked dirs (os.walk default)
    return out


def make_writable(root):
    for dp, dn, fn in os.walk(root):
        for n in dn:
            p = os.path.join(dp, n)
            if not os.path.islink(p):
                try:
                    os.chmod(p, 0o755)
                except OSError:
                    pass
    try:
        os.chmod(root, 0o755)
    except OSError:
        pass


class C02(Check):
    property_id = "C02"
    level = "exploration"
    technique = "Hypothesis-generated directory trees (recursive strategy) materialised on disk; lstat/readlink/read comparison of the source tree (dereferenced when requested) with the extracted tree"
    rule = ("tree of depth <= 5: directories (possibly empty), files (0..3000 bytes), up to 3 relative symlinks to existing files/directories "
            "(sideways, upward-but-inside), names from a small colliding alphabet {a,b,c,d} and from the Unicode component generator, file modes "
            "over all of 0o400..0o777 (every value enumerated once, sampled beyond), directory modes over 0o500..0o777, writer I/O block size default / 1 KiB / 4 KiB plus one real file over 1 MiB, mtimes 1970..2100 with nanosecond parts; x arcname "
            "None / 'given' / 'x/y' x dereference off/on x password None/'pw' x entry point writeall+extractall or pack_7zarchive+unpack_7zarchive "
            "x source addressed relatively (cwd = parent) or absolutely. Oracle: same relative path set (incl. empty directories), same kind, "
            "file bytes equal, link text equal, permission bits equal for files and directories, |mtime difference| <= 5 us; with dereference "
            "each link is replaced by what it points to. Non-trivial: tree has an empty dir, a zero-byte file next to a non-empty one, a mode other "
            "than 644/755, a sub-second mtime, a non-ASCII name, a link to a directory or an upward link; distinct by (feature set, depth, entry, options).")
    assumptions = ["runs as root: permission bits never block reading the source", "scratch filesystem stores nanosecond mtimes"]
    budget_s = {"quick": 80, "thorough": 1500}
    sandbox_timeout = 120

    def setup(self, env):
        import py7zr.compressor as pc

        if hasattr(pc, "calculate_key") and not getattr(pc.calculate_key, "_memo", False):
            f = functools.lru_cache(maxsize=64)(pc.calculate_key)
            f._memo = True
            pc.calculate_key = f
        env.state["k"] = 0

    def strategy(self, env):
        return tree_strategy()

    def examples(self, env):
        return env.n(350, 6000)

    def enumerated(self, env):
        # link text coincidences of the small alphabet: root 'a', file a/x, link a/b/l -> a/x with a/b/a/x present, in both registration orders
        def t(order_first):
            kids_b = [{"kind": "dir", "name": "a", "mode": 0o755, "mtime_ns": 10 ** 18, "children": [
                {"kind": "file", "name": "x", "data": ["hex", "696e6e6572"], "mode": 0o644, "mtime_ns": 10 ** 18}]}]
            b = {"kind": "dir", "name": order_first, "mode": 0o755, "mtime_ns": 10 ** 18, "children": kids_b}
            x = {"kind": "file", "name": "x", "data": ["hex", "6f75746572"], "mode": 0o640, "mtime_ns": 10 ** 18 + 500}
            return {"kind": "dir", "name": "a", "mode": 0o750, "mtime_ns": 10 ** 18, "children": [b, x]}

        def sib(n1, n2, to_dir):
            f = {"kind": "file", "name": "f", "data": ["hex", "31"], "mode": 0o644, "mtime_ns": 10 ** 18}
            g = {"kind": "file", "name": "g", "data": ["hex", "3232"], "mode": 0o600, "mtime_ns": 10 ** 18 + 700}
            d1 = {"kind": "dir", "name": n1, "mode": 0o755, "mtime_ns": 10 ** 18, "children": [f]}
            d2 = {"kind": "dir", "name": n2, "mode": 0o750, "mtime_ns": 10 ** 18, "children": [g]}
            return {"kind": "dir", "name": "root", "mode": 0o755, "mtime_ns": 10 ** 18, "children": [d1, d2]}, to_dir

        i = 100
        # sibling directories whose names extend one another, a link in one pointing to the other (directory or file in it)
        for n1, n2 in (("data", "data_old"), ("d1", "d10"), ("a", "ab"), ("ab", "a"), ("x.y", "x")):
            for to in ("dir", "file"):
                for deref in (False, True):
                    for src in ("relative", "absolute"):
                        i += 1
                        if not env.mine(i):
                            continue
                        root, _ = sib(n1, n2, to)
                        nodes = flatten(root)
                        dirs = [p for p, n in nodes if n["kind"] == "dir"]
                        at = dirs.index(("root", n2))
                        target = ("root", n1) if to == "dir" else ("root", n1, "f")
                        ti = [p for p, n in nodes].index(target)
                        yield {"root": root, "links": [{"at": at, "to": ti, "name": "current"}], "arcname": None, "dereference": deref, "password": None,
                               "entry": "writeall", "source": src}
        # the working directory is a directory inside the archived tree (an empty one, a populated one, the root itself)
        for at in (0, 1):
            for entry in ("writeall", "shutil"):
                i += 1
                if env.mine(i):
                    e = {"kind": "dir", "name": "empty", "mode": 0o750, "mtime_ns": 10 ** 18 + 900, "children": []}
                    f = {"kind": "dir", "name": "full", "mode": 0o700, "mtime_ns": 10 ** 18 + 300, "children": [
                        {"kind": "file", "name": "f", "data": ["hex", "31"], "mode": 0o644, "mtime_ns": 10 ** 18}]}
                    yield {"root": {"kind": "dir", "name": "root", "mode": 0o755, "mtime_ns": 10 ** 18, "children": [e, f]}, "links": [], "arcname": None,
                           "dereference": False, "password": None, "entry": entry, "source": "absolute", "block": None, "cwd": "inside", "cwd_at": at}
        # a chain of links: latest -> current -> data.txt, and a link through a directory link
        for src in ("relative", "absolute"):
            for entry in ("writeall", "shutil"):
                i += 1
                if env.mine(i):
                    data = {"kind": "file", "name": "data.txt", "data": ["hex", "64617461"], "mode": 0o644, "mtime_ns": 10 ** 18}
                    sub = {"kind": "dir", "name": "sub", "mode": 0o755, "mtime_ns": 10 ** 18, "children": [
                        {"kind": "file", "name": "inner", "data": ["hex", "69"], "mode": 0o600, "mtime_ns": 10 ** 18}]}
                    yield {"root": {"kind": "dir", "name": "root", "mode": 0o755, "mtime_ns": 10 ** 18, "children": [data, sub]},
                           "links": [{"at": 0, "to": 1, "name": "current", "to_link": None}, {"at": 0, "to": 1, "name": "latest", "to_link": 0},
                                     {"at": 1, "to": 1, "name": "up", "to_link": 1}],
                           "arcname": None, "dereference": False, "password": None, "entry": entry, "source": src, "block": None}
        # a file larger than the writer's real I/O block (1 MiB), with and without a password
        for pw in (None, "pw"):
            i += 1
            if env.mine(i):
                big = {"kind": "file", "name": "big.bin", "data": ["gen", "text", (1 << 20) + 5000, 7], "mode": 0o640, "mtime_ns": 10 ** 18 + 1500}
                small = {"kind": "file", "name": "s", "data": ["hex", "00"], "mode": 0o600, "mtime_ns": 10 ** 18}
                yield {"root": {"kind": "dir", "name": "root", "mode": 0o755, "mtime_ns": 10 ** 18, "children": [big, small]}, "links": [], "arcname": None,
                       "dereference": False, "password": pw, "entry": "writeall", "source": "relative", "block": None}
        # every combination of the nine permission bits that keeps the owner's read bit (files) - one tree of 16 files per batch
        modes = list(range(0o400, 0o1000))
        for b in range(0, len(modes), 16):
            i += 1
            if env.mine(i):
                kids = [{"kind": "file", "name": "m%03o" % m, "data": ["hex", "6d"], "mode": m, "mtime_ns": 10 ** 18 + m} for m in modes[b:b + 16]]
                dkids = [{"kind": "dir", "name": "d%03o" % (m | 0o500), "mode": (m | 0o500), "mtime_ns": 10 ** 18, "children": []} for m in modes[b:b + 16:4]]
                yield {"root": {"kind": "dir", "name": "root", "mode": 0o755, "mtime_ns": 10 ** 18, "children": kids + dkids}, "links": [], "arcname": None,
                       "dereference": False, "password": None, "entry": "writeall", "source": "relative", "block": None}
        i = 0
        for first in ("b", "z"):
            for src in ("relative", "absolute"):
                for deref in (False, True):
                    i += 1
                    if env.mine(i):
                        yield {"root": t(first), "links": [{"at": 1, "to": 1 if False else 4, "name": "l"}], "arcname": None, "dereference": deref, "password": None,
                               "entry": "writeall", "source": src}

    def execute(self, case, env):
        out = Outcome()
        env.state["k"] += 1
        work = env.tmpdir("c2-")
        srcbase = os.path.join(work, "s")
        os.makedirs(srcbase)
        cwd = os.getcwd()
        try:
            nodes, links = materialise(case, srcbase)
            rootname = case["root"]["name"]
            root = os.path.join(srcbase, rootname)
            src_tree = scan(srcbase)  # paths start with rootname
            depth = max(len(p) for p, _ in nodes)
            feats = set()
            for p, n in nodes:
                if n["kind"] == "dir" and not n["children"]:
                    feats.add("empty-dir")
                if n["kind"] == "file" and G.content_len(n["data"]) == 0:
                    feats.add("zero-file")
                if n["mode"] not in (0o644, 0o755):
                    feats.add("odd-mode")
                if n["mtime_ns"] % 10 ** 9:
                    feats.add("subsecond")
                if any(ord(c) > 127 for c in n["name"]):
                    feats.add("non-ascii")
            for lp, text, tp in links:
                feats.add("link")
                if text.startswith(".."):
                    feats.add("upward-link")
                if dict(nodes).get(tp, {}).get("kind") == "dir" if False else any(p == tp and n["kind"] == "dir" for p, n in nodes):
                    feats.add("link-to-dir")
            out.nontrivial = bool(feats)
            out.descriptor = (tuple(sorted(feats)), depth, case["entry"], case["arcname"], case["dereference"], case["password"] is not None, case["source"], len(nodes))
            out.label(*["feat:" + f for f in sorted(feats)])
            out.label("entry:" + case["entry"], "deref" if case["dereference"] else "noderef", "src:" + case["source"], "depth=%d" % depth)
            out.sample = {"features": sorted(feats), "nodes": len(nodes), "links": [("/".join(lp), t) for lp, t, _ in links], "entry": case["entry"],
                          "arcname": case["arcname"], "dereference": case["dereference"], "source": case["source"]}
            sig = {"entry": case["entry"], "deref": case["dereference"]}
            apath = os.path.join(work, "t.7z")
            dest = os.path.join(work, "out")
            os.chdir(srcbase)
            src_arg = rootname if case["source"] == "relative" else root
            if case.get("cwd") == "inside":
                # the process stands in a directory inside the tree it archives (by absolute path): nothing about the result may change
                # (strictly below the root: writeall() of the working directory itself leaves out the top entry by design)
                inner = [p for p, n in nodes if n["kind"] == "dir"][1:]
                if inner:
                    os.chdir(os.path.join(srcbase, *inner[case.get("cwd_at", 0) % len(inner)]))
                    out.label("cwd:inside")
                src_arg = root
            arcname = case["arcname"]
            try:
                if case["entry"] == "shutil":
                    arcname = None
                    made = py7zr.pack_7zarchive(os.path.join(work, "t"), src_arg)
                    apath = made
                    pw = None
                    deref = False
                else:
                    pw = case["password"]
                    deref = case["dereference"]
                    with patches.blocksize(case.get("block")):
                        with py7zr.SevenZipFile(apath, "w", password=pw, dereference=deref) as z:
                            z.writeall(src_arg, arcname)
            except Exception as e:
                cls, frame = arch.exc_sig(e)
                out.violate(dict(sig, kind="archive-raises", exc=cls, frame=frame), observed=repr(e)[:300], expected="tree archived")
                return out
            os.chdir(work)
            try:
                if case["entry"] == "shutil":
                    py7zr.unpack_7zarchive(apath, dest)
                else:
                    with py7zr.SevenZipFile(apath, "r", password=pw) as z:
                        z.extractall(dest)
            except Exception as e:
                cls, frame = arch.exc_sig(e)
                out.violate(dict(sig, kind="extract-raises", exc=cls, frame=frame, links=bool(links)), observed=repr(e)[:300], expected="tree extracted")
                return out
            # where the tree lands
            if arcname is not None:
                top = arcname
            elif case["source"] == "relative" and case.get("cwd") != "inside":
                top = rootname
            else:
                top = root.lstrip("/")
            got_all = scan(dest) if os.path.isdir(dest) else {}
            prefix = top + "/"
            got = {}
            for k, v in got_all.items():
                if k == top:
                    got[rootname] = v
                elif k.startswith(prefix):
                    got[rootname + "/" + k[len(prefix):]] = v
            want = dict(src_tree)
            if deref:
                want = dereferenced(srcbase, rootname)
            missing = sorted(set(want) - set(got))
            extra = sorted(set(got) - set(want))
            if missing or extra:
                kinds = sorted({want[m][0] for m in missing})
                out.violate(dict(sig, kind="path-set-differs", missing="+".join(kinds), extra=bool(extra)), observed={"missing": missing[:5], "extra": extra[:5]},
                            expected="same relative paths")
            for k in sorted(set(want) & set(got)):
                wk, wd, wm, wt = want[k]
                gk, gd, gm, gt = got[k]
                if wk != gk:
                    out.violate(dict(sig, kind="kind-differs", want=wk, got=gk), observed={"path": k}, expected=wk)
                    continue
                if wk == "file" and wd != gd:
                    out.violate(dict(sig, kind="bytes-differ"), observed={"path": k, "len": len(gd)}, expected={"len": len(wd)})
                if wk == "link" and wd != gd:
                    out.violate(dict(sig, kind="link-text-differs"), observed={"path": k, "got": gd}, expected=wd)
                if wk in ("file", "dir"):
                    if wm != gm:
                        out.violate(dict(sig, kind="mode-differs", member=wk), observed={"path": k, "got": oct(gm)}, expected=oct(wm))
                    if abs(wt - gt) > 5000:
                        out.violate(dict(sig, kind="mtime-differs", member=wk, far=abs(wt - gt) > 10 ** 9), observed={"path": k, "got_ns": gt, "diff_ns": gt - wt},
                                    expected=wt)
        finally:
            os.chdir(cwd)
            make_writable(work)
            shutil.rmtree(work, ignore_errors=True)
        return out


def dereferenced(srcbase, rootname):
    """expected tree when links are followed: walk with followlinks"""
    out = {}
    root = os.path.join(srcbase, rootname)
    for dp, dn, fn in os.walk(srcbase, followlinks=True):
        if not (dp == root or dp.startswith(root + os.sep) or dp == srcbase):
            continue
        for n in dn + fn:
            p = os.path.join(dp, n)
            if dp == srcbase and n != rootname:
                continue
            st_ = os.stat(p)
            rel = os.path.relpath(p, srcbase)
            if stat.S_ISDIR(st_.st_mode):
                out[rel] = ("dir", None, stat.S_IMODE(st_.st_mode), st_.st_mtime_ns)
            else:
                with open(p, "rb") as f:
                    out[rel] = ("file", f.read(), stat.S_IMODE(st_.st_mode), st_.st_mtime_ns)
    return out


CHECK = C02()
