"""re-seal both header CRCs of arbitrary bytes (shared by the atheris target and the C05 check)"""
import struct
import zlib

SIG = b"7z\xbc\xaf\x27\x1c"


def reseal(data: bytes) -> bytes:
    if len(data) < 32:
        return data
    d = bytearray(data)
    d[:6] = SIG
    off, size = struct.unpack("<QQ", d[12:28])
    n = len(d) - 32
    if n <= 0:
        return bytes(d)
    off %= n
    size = size % (n - off) if n - off > 0 else 0
    d[12:28] = struct.pack("<QQ", off, size)
    nh = bytes(d[32 + off: 32 + off + size])
    d[28:32] = struct.pack("<L", zlib.crc32(nh) & 0xFFFFFFFF)
    d[8:12] = struct.pack("<L", zlib.crc32(bytes(d[12:32])) & 0xFFFFFFFF)
    return bytes(d)
