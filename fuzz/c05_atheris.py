#!/venv/bin/python
"""Coverage-guided byte fuzzing of py7zr's read path (thorough tier of C05).

The fuzz target re-seals both header CRCs of the mutated bytes before handing them to
py7zr (so that libFuzzer does not have to guess CRC-32s and the parser is entered), then
runs open + getnames + extractall(NullIO) + testzip.  Oracle: libFuzzer's -timeout
(no call sequence may take longer) and -rss_limit_mb; every Exception is fine, any other
BaseException crashes the target.  Artifacts are converted to C05 replay cases by the check.

usage: c05_atheris.py <corpus_dir> [libFuzzer flags]
"""
import io
import os
import struct
import sys
import zlib

VERIF = os.path.dirname(os.path.dirname(os.path.abspath(__file__)))
REPO = os.environ.get("VERIF_REPO", "/repo")
sys.path.insert(0, REPO)
sys.path.insert(1, VERIF)
sys.path.append(os.path.join(VERIF, ".deps"))

import atheris  # noqa: E402

with atheris.instrument_imports(include=["py7zr"]):
    import py7zr  # noqa: E402
    from py7zr.io import NullIOFactory  # noqa: E402

from fuzz_reseal import reseal  # noqa: E402


def run_one(data: bytes, password=None):
    try:
        z = py7zr.SevenZipFile(io.BytesIO(data), "r", password=password)
    except Exception:
        return
    try:
        try:
            z.getnames()
            z.list()
            z.extractall(factory=NullIOFactory())
        except Exception:
            pass
        try:
            z.testzip()
        except Exception:
            pass
        try:
            z.test()
        except Exception:
            pass
    finally:
        try:
            z.close()
        except Exception:
            pass


def expensive(data: bytes) -> bool:
    """legitimately expensive declarations (7zAES 2^20..2^24 rounds, dictionaries/models > 64 MiB) are outside the oracle"""
    from ref7z import coders as RC
    from ref7z import reader as RR

    try:
        P = RR.parse(data, password="pw", decode=False)
    except Exception:
        return False
    coders = [c for f in P.folders for c in f["coders"]] + list(P.header_coders or [])
    for c in coders:
        props = c.get("props") or b""
        m = c["m"]
        try:
            if m == RC.M_AES and props and 20 <= (props[0] & 0x3F) <= 24:
                return True
            if m == RC.M_LZMA2 and props and props[0] <= 40 and RC.lzma2_dict_from_code(props[0]) > (64 << 20):
                return True
            if m in (RC.M_LZMA, RC.M_PPMD) and len(props) >= 5 and struct.unpack("<L", props[1:5])[0] > (64 << 20):
                return True
        except Exception:
            pass
    return False


def TestOneInput(data):
    if len(data) < 33 or len(data) > 1 << 16:
        return
    pw = "pw" if data[0] & 1 else None
    d = reseal(data)
    if expensive(d):
        return
    run_one(d, pw)


if __name__ == "__main__":
    atheris.Setup(sys.argv, TestOneInput)
    atheris.Fuzz()
