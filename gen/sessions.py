"""Create/append histories driven through py7zr's public API (C07, C08, C10, C14)."""
import io
import os
import stat

from hypothesis import strategies as st

from gen import basic as G

ENTRY_KINDS = ["writestr", "writestr", "writestr", "writef", "write-file", "write-dir", "write-empty", "write-link"]


def entry(name_strategy=None):
    name_strategy = G.rel_name(3, 10) if name_strategy is None else name_strategy
    return st.fixed_dictionaries({
        "how": st.sampled_from(ENTRY_KINDS),
        "data": G.contents(3000),
        "mode": st.sampled_from([0o644, 0o600, 0o755, 0o400, 0o664]),
        "mtime_ns": st.integers(10 ** 9, 4102444800 * 10 ** 9),
    })


def session(max_entries=4, aes=True):
    return st.fixed_dictionaries({
        "chain": G.filter_chains(allow_aes=aes),
        "entries": st.lists(entry(), min_size=0, max_size=max_entries),
    })


def history(max_sessions=3, max_entries=4, aes=True, names=None):
    """a history: names are assigned afterwards so they are distinct across sessions"""

    def assign(t):
        sessions, names_, header, target, pw = t
        it = iter(names_)
        out = []
        for s in sessions:
            es = []
            for e in s["entries"]:
                try:
                    n = next(it)
                except StopIteration:
                    break
                es.append(dict(e, name=n))
            out.append({"filters": s["chain"]["filters"], "entries": es})
        uses_aes = any(f and any(x["id"] == G.F_AES for x in f) for f in [s["filters"] for s in out])
        password = pw if (uses_aes or header.startswith("encrypted") or pw is not None and not aes is False) else None
        if uses_aes or header.startswith("encrypted"):
            password = pw or "pw"
        else:
            password = None
        return {"sessions": out, "header": header, "target": target, "password": password}

    names = G.distinct_names(0, max_sessions * max_entries, G.rel_name(3, 10)) if names is None else names
    return st.tuples(st.lists(session(max_entries, aes), min_size=1, max_size=max_sessions), names,
                     st.sampled_from(G.HEADER_MODES if aes else ["raw", "encoded"]), st.sampled_from(["path", "bytesio", "file"]),
                     st.one_of(st.none(), st.sampled_from(["pw", "pässwörd", ""] + G.PW_UNNORMALISED))).map(assign)


def conflict_free(names):
    s = set(names)
    for n in names:
        parts = n.split("/")
        for i in range(1, len(parts)):
            if "/".join(parts[:i]) in s:
                return False
    return True


def materialise(entry, srcdir, idx):
    """create the on-disk source for write-* entries; returns (path, model) where model is the expected member"""
    how = entry["how"]
    data = G.expand(entry["data"])
    p = os.path.join(srcdir, "s%d" % idx)
    sec, ns = divmod(entry["mtime_ns"], 10 ** 9)
    if how == "write-file":
        with open(p, "wb") as f:
            f.write(data)
        os.chmod(p, entry["mode"])
        os.utime(p, ns=(entry["mtime_ns"], entry["mtime_ns"]))
        return p, {"kind": "file", "data": data, "mode": entry["mode"], "mtime_ns": entry["mtime_ns"]}
    if how == "write-empty":
        with open(p, "wb"):
            pass
        os.chmod(p, entry["mode"])
        os.utime(p, ns=(entry["mtime_ns"], entry["mtime_ns"]))
        return p, {"kind": "file", "data": b"", "mode": entry["mode"], "mtime_ns": entry["mtime_ns"]}
    if how == "write-dir":
        os.mkdir(p)
        os.chmod(p, entry["mode"] | 0o500)
        os.utime(p, ns=(entry["mtime_ns"], entry["mtime_ns"]))
        return p, {"kind": "dir", "data": b"", "mode": entry["mode"] | 0o500, "mtime_ns": entry["mtime_ns"]}
    if how == "write-link":
        tgt = os.path.join(srcdir, "t%d.txt" % idx)
        with open(tgt, "wb") as f:
            f.write(b"target")
        os.symlink("t%d.txt" % idx, p)
        return p, {"kind": "link", "data": ("t%d.txt" % idx).encode(), "mode": None, "mtime_ns": None}
    raise ValueError(how)


RECORD = []  # (filters, [stream contents in order]) of every session run since the list was last cleared (KF-47 tagging)


def run_session(z, sess, srcdir, base_idx=0, filters=None):
    """apply one session's entries to an open SevenZipFile; returns the model members added"""
    added = []
    RECORD.append((filters or sess.get("filters") or (sess.get("chain") or {}).get("filters"), added))
    for i, e in enumerate(sess["entries"]):
        how = e["how"]
        if how == "writestr":
            data = G.expand(e["data"])
            z.writestr(data, e["name"])
            added.append({"name": e["name"], "kind": "file", "data": data, "mode": None, "mtime_ns": None})
        elif how == "writef":
            data = G.expand(e["data"])
            z.writef(io.BytesIO(data), e["name"])
            added.append({"name": e["name"], "kind": "file", "data": data, "mode": None, "mtime_ns": None})
        elif how == "writeall-tree":
            # a small tree added with writeall(): directory, file, sub-directory, file
            data = G.expand(e["data"])
            root = os.path.join(srcdir, "t%d" % (base_idx + i))
            os.makedirs(os.path.join(root, "sub"))
            with open(os.path.join(root, "a.txt"), "wb") as f:
                f.write(data)
            with open(os.path.join(root, "sub", "b.txt"), "wb") as f:
                f.write(data[::-1])
            z.writeall(root, e["name"])
            n = stored_name_for_write(e["name"])
            added.append({"name": n, "kind": "dir", "data": b"", "mode": None, "mtime_ns": None})
            added.append({"name": n + "/a.txt", "kind": "file", "data": data, "mode": None, "mtime_ns": None})
            added.append({"name": n + "/sub", "kind": "dir", "data": b"", "mode": None, "mtime_ns": None})
            added.append({"name": n + "/sub/b.txt", "kind": "file", "data": data[::-1], "mode": None, "mtime_ns": None})
        elif how == "fail-writef":
            # a source whose first read() raises: the call fails, the session goes on, nothing is added

            class _Failing(io.BufferedIOBase):
                def readable(self):
                    return True

                def seekable(self):
                    return True

                def tell(self):
                    return 0

                def seek(self, off, whence=0):
                    return 0

                def read(self, n=-1):
                    raise OSError(5, "injected read failure")

            try:
                z.writef(_Failing(), e["name"])
            except OSError:
                pass
        else:
            p, model = materialise(e, srcdir, base_idx + i)
            z.write(p, e["name"])
            added.append(dict(model, name=stored_name_for_write(e["name"])))
    return added


def stored_name_for_write(arcname: str) -> str:
    """write()/writeall() document that leading separators and a drive prefix are removed from the stored name"""
    import re

    n = arcname.lstrip("/")
    if re.match(r"^[a-zA-Z]:", n):
        n = n[2:].lstrip("/")
    return n if n else "."


def expected_filetime(mtime_ns):
    return mtime_ns // 100 + 116444736000000000


def check_member_meta(m, got_mtime, got_attr):
    """compare a write()-added member's stored metadata with the source; returns list of problems"""
    problems = []
    if m.get("mtime_ns") is not None:
        if got_mtime is None or abs(got_mtime - expected_filetime(m["mtime_ns"])) > 50:
            problems.append(("mtime", got_mtime, expected_filetime(m["mtime_ns"])))
    if m.get("mode") is not None:
        if got_attr is None or not (got_attr & 0x8000) or stat.S_IMODE(got_attr >> 16) != m["mode"]:
            problems.append(("mode", got_attr, m["mode"]))
    if m["kind"] == "dir" and (got_attr is None or not got_attr & 0x10):
        problems.append(("dir-attribute", got_attr, 0x10))
    if m["kind"] == "link" and (got_attr is None or not (got_attr & 0x8000 and stat.S_ISLNK(got_attr >> 16))):
        problems.append(("link-attribute", got_attr, "S_IFLNK"))
    return problems
