"""Logical archives x physical layouts for the reference writer (C06, C08, C10, C04)."""
import stat

from hypothesis import strategies as st

from gen import basic as G
from ref7z import coders as RC

A_FILE = 0x20 | 0x8000 | ((stat.S_IFREG | 0o644) << 16)
A_DIR = 0x10 | 0x8000 | ((stat.S_IFDIR | 0o755) << 16)
A_LINK = 0x20 | 0x400 | 0x8000 | ((stat.S_IFLNK | 0o777) << 16)

MAIN = [RC.M_LZMA2, RC.M_LZMA, RC.M_COPY, RC.M_BZIP2, RC.M_DEFLATE, RC.M_DEFLATE64, RC.M_ZSTD, RC.M_PPMD, RC.M_BROTLI]
BCJ_FOR_LZMA = [RC.M_X86, RC.M_ARM, RC.M_ARMT, RC.M_PPC, RC.M_SPARC, RC.M_IA64]
BCJ_FOR_ALT = [RC.M_X86, RC.M_ARM, RC.M_ARMT, RC.M_PPC, RC.M_SPARC]


def chain(aes_ok=True):
    """coder list in decode order: [AES?] main [filter?]"""

    AESV = {"iv16": ("", "0102030405060708090a0b0c0d0e0f10"), "iv4": ("", "a1a2a3a4"), "none": ("", ""), "salt": ("5a17", "0102030405060708090a0b0c0d0e0f10"),
            "salt16": ("00112233445566778899aabbccddeeff", "f1f2f3f4f5f6f7f8")}

    def build(main, flt, aes, cyc, dist, aesv="iv16"):
        c = []
        if aes:
            # property forms: IV of 16 / 4 bytes, neither IV nor salt (one property byte), salt of 2 / 16 bytes; 0x3F = key without hashing
            salt, iv = AESV[aesv]
            c.append({"m": RC.M_AES, "cycles": cyc, "iv": iv, "salt": salt})
        m = {"m": main}
        if main in (RC.M_LZMA, RC.M_LZMA2):
            m["dict"] = 1 << 16
        c.append(m)
        if flt == "delta" and main in (RC.M_LZMA, RC.M_LZMA2):
            c.append({"m": RC.M_DELTA, "dist": dist})
        elif isinstance(flt, str) and flt != "delta" and flt is not None:
            if main in (RC.M_LZMA, RC.M_LZMA2) or flt in BCJ_FOR_ALT:
                c.append({"m": flt})
        return c

    flt = st.one_of(st.none(), st.none(), st.just("delta"), st.sampled_from(BCJ_FOR_LZMA))
    return st.builds(build, st.sampled_from(MAIN + [RC.M_LZMA2, RC.M_COPY]), flt, st.booleans() if aes_ok else st.just(False),
                     st.one_of(st.integers(0, 6), st.integers(0, 6), st.integers(0, 6), st.just(0x3F)), st.integers(1, 256),
                     st.sampled_from(["iv16", "iv16", "iv4", "none", "salt", "salt16"]))


def member():
    ftime = st.one_of(st.none(), st.integers(116444736000000000, 159017184000000000), st.sampled_from([0, (1 << 63) - 1, 116444736000000000]))
    base = {"mtime": ftime, "ctime": st.one_of(st.none(), st.none(), ftime), "atime": st.one_of(st.none(), st.none(), ftime)}
    small = st.one_of(st.binary(min_size=1, max_size=40).map(lambda b: ["hex", b.hex()]), G.contents(5000).filter(lambda d: G.content_len(d) > 0))
    f = st.fixed_dictionaries(dict(base, kind=st.just("file"), data=small,
                                   attr=st.one_of(st.none(), st.just(0x20), st.just(A_FILE), st.integers(0, 0x7FFF).map(lambda a: a & ~0x10 & ~0x400))))
    z = st.fixed_dictionaries(dict(base, kind=st.just("file"), data=st.just(["hex", ""]), attr=st.one_of(st.none(), st.just(A_FILE))))
    e = st.fixed_dictionaries(dict(base, kind=st.just("empty"), data=st.just(["hex", ""]), attr=st.one_of(st.none(), st.just(0x20), st.just(A_FILE))))
    d = st.fixed_dictionaries(dict(base, kind=st.just("dir"), data=st.just(["hex", ""]), attr=st.one_of(st.none(), st.just(0x10), st.just(A_DIR))))
    ln = st.fixed_dictionaries(dict(base, kind=st.just("link"), data=st.sampled_from(["a", "x/y", "."]).map(lambda s: ["hex", s.encode().hex()]),
                                    attr=st.just(A_LINK)))
    return st.one_of(f, f, f, z, e, d, d, ln)


def logical(n_min=1, n_max=7, names=None):
    names = G.distinct_names(n_min, n_max, G.rel_name(3, 10)) if names is None else names
    return names.flatmap(lambda ns: st.tuples(*[member().map(lambda m, n=n: dict(m, name=n)) for n in ns]).map(list))


def layout_opts():
    return st.fixed_dictionaries({
        "packpos": st.sampled_from([0, 0, 1, 7, 300]),
        "pack_crc": st.sampled_from([False, True, True, "partial"]),
        "numunpack": st.sampled_from(["auto", "auto", "always"]),
        "substreams": st.sampled_from(["auto", "auto", "auto", "omit"]),
        "dummy": st.sampled_from([-1, -1, 0, 1, 5]),
        "emptyfile_vec": st.sampled_from(["auto", "auto", "always"]),
        "defined_shortcut": st.booleans(),
        "header": st.sampled_from(["raw", "raw", "lzma", "lzma2", "aes", "lzma+aes"]),
        "hdr_crc": st.booleans(),
        "hdr_gap": st.sampled_from([0, 0, 3]),
        "startpos": st.sampled_from([None, None, None, "all", "partial"]),
        "archive_props": st.sampled_from([None, None, None, 1, 2]),
        "comment": st.sampled_from([None, None, None, 1, 12]),
    })


def physical(members, draw_cuts, draw_chains, draw_fcrc, draw_scrc, opts):
    """assemble (files, folders, opts) for ref7z.writer from a logical list"""
    files = []
    for m in members:
        f = {"name": m["name"], "mtime": m["mtime"], "ctime": m["ctime"], "atime": m["atime"], "attr": m["attr"]}
        if m["kind"] == "dir":
            f["es"] = True
        elif m["kind"] == "empty":
            f["es"] = True
            f["ef"] = True
        else:
            f["data"] = G.expand(m["data"])
        files.append(f)
    nd = sum(1 for f in files if not f.get("es"))
    folders = []
    i = 0
    k = 0
    zeros = 0
    while i < nd:
        n = min(draw_cuts[k % len(draw_cuts)] if draw_cuts else nd, nd - i)
        if n <= 0:
            zeros += 1
            n = 0 if zeros <= 2 else 1  # folders without substreams are legal (NumUnpackStream = 0)
        folders.append({"coders": draw_chains[k % len(draw_chains)], "n": n, "fcrc": draw_fcrc[k % len(draw_fcrc)],
                        "scrc": draw_scrc[k % len(draw_scrc)]})
        i += n
        k += 1
    o = dict(opts)
    if o.get("substreams") == "omit":
        if any(fo["n"] != 1 for fo in folders):
            o["substreams"] = "auto"
        else:
            for fo in folders:
                fo["fcrc"] = True  # the only place a CRC can live then
    for fo in folders:
        if isinstance(fo["scrc"], list):
            fo["scrc"] = (fo["scrc"] * fo["n"])[:fo["n"]]
    return files, folders, o


def case_strategy(n_max=7, aes_ok=True):
    return st.fixed_dictionaries({
        "members": logical(1, n_max),
        "cuts": st.lists(st.integers(0, 4), min_size=0, max_size=4),
        "chains": st.lists(chain(aes_ok), min_size=1, max_size=4),
        "fcrc": st.lists(st.booleans(), min_size=1, max_size=4),
        "scrc": st.lists(st.one_of(st.just("all"), st.just("all"), st.just("none"), st.lists(st.booleans(), min_size=1, max_size=4)), min_size=1, max_size=4),
        "opts": layout_opts(),
    })


def needs_password(case):
    return any(c["m"] == RC.M_AES for ch in case["chains"] for c in ch) or "aes" in str(case["opts"].get("header"))


def build_case(case):
    """-> (files, folders, opts, password)"""
    files, folders, opts = physical(case["members"], case["cuts"], [[dict(c) for c in ch] for ch in case["chains"]], case["fcrc"], case["scrc"],
                                    case["opts"])
    used_aes = any(c["m"] == RC.M_AES for fo in folders for c in fo["coders"]) or "aes" in str(opts.get("header"))
    return files, folders, opts, ("pw" if used_aes else None)
