"""Small seed archives (reference-writer specs and py7zr-written) shared by C04/C05/C09/C12/C13."""
import io
import stat

from gen import basic as G
from ref7z import coders as RC
from ref7z import writer as RW

A_FILE = 0x20 | 0x8000 | ((stat.S_IFREG | 0o644) << 16)
A_DIR = 0x10 | 0x8000 | ((stat.S_IFDIR | 0o755) << 16)
A_LINK = 0x20 | 0x400 | 0x8000 | ((stat.S_IFLNK | 0o777) << 16)
MT = 132000000000000000

TXT_FULL = TXT = (b"The quick brown fox jumps over the lazy dog. " * 6)[:250]
BIN_FULL = BIN = bytes((i * 7 + 3) & 0xFF for i in range(300))


def F(name, data, attr=A_FILE, mtime=MT):
    return {"name": name, "data": data, "attr": attr, "mtime": mtime}


def D(name):
    return {"name": name, "es": True, "attr": A_DIR, "mtime": MT}


def E(name):
    return {"name": name, "es": True, "ef": True, "attr": A_FILE, "mtime": MT}


def L(name, target):
    return {"name": name, "data": target.encode(), "attr": A_LINK, "mtime": MT}


def ref_specs(small=False):
    """name -> (files, folders, opts, password)"""
    TXT, BIN = (TXT_FULL[:60], BIN_FULL[:40]) if small else (TXT_FULL, BIN_FULL)
    three = [F("a.txt", TXT), F("dir/b.bin", BIN), F("c", b"x")]
    S = {}
    S["copy"] = (three, [{"coders": [{"m": RC.M_COPY}], "n": 3}], {"header": "raw"}, None)
    S["copy-packcrc"] = (three, [{"coders": [{"m": RC.M_COPY}], "n": 3}], {"header": "raw", "pack_crc": True}, None)
    S["lzma2"] = (three, [{"coders": [{"m": RC.M_LZMA2}], "n": 3}], {"header": "lzma"}, None)
    S["lzma"] = (three, [{"coders": [{"m": RC.M_LZMA}], "n": 3}], {"header": "raw"}, None)
    S["lzma2-bcj"] = (three, [{"coders": [{"m": RC.M_LZMA2}, {"m": RC.M_X86}], "n": 3}], {"header": "lzma"}, None)
    S["lzma2-delta"] = (three, [{"coders": [{"m": RC.M_LZMA2}, {"m": RC.M_DELTA, "dist": 2}], "n": 3}], {"header": "raw"}, None)
    S["bzip2"] = (three, [{"coders": [{"m": RC.M_BZIP2}], "n": 3}], {"header": "raw"}, None)
    S["deflate"] = (three, [{"coders": [{"m": RC.M_DEFLATE}], "n": 3}], {"header": "raw"}, None)
    S["deflate64"] = (three, [{"coders": [{"m": RC.M_DEFLATE64}], "n": 3}], {"header": "raw"}, None)
    S["zstd"] = (three, [{"coders": [{"m": RC.M_ZSTD}], "n": 3}], {"header": "raw"}, None)
    S["ppmd"] = (three, [{"coders": [{"m": RC.M_PPMD}], "n": 3}], {"header": "raw"}, None)
    S["brotli"] = (three, [{"coders": [{"m": RC.M_BROTLI}], "n": 3}], {"header": "raw"}, None)
    S["zstd-bcj"] = (three, [{"coders": [{"m": RC.M_ZSTD}, {"m": RC.M_ARM}], "n": 3}], {"header": "raw"}, None)
    multi = [F("a.txt", TXT), F("b.bin", BIN), F("c", b"xyz"), F("d/e.txt", TXT[:40])]
    S["multi3"] = (multi, [{"coders": [{"m": RC.M_COPY}], "n": 1}, {"coders": [{"m": RC.M_LZMA2}], "n": 2},
                           {"coders": [{"m": RC.M_BZIP2}], "n": 1}], {"header": "raw"}, None)
    S["multi2-lzma"] = (multi, [{"coders": [{"m": RC.M_LZMA}], "n": 2}, {"coders": [{"m": RC.M_LZMA2}], "n": 2}], {"header": "lzma"}, None)
    mixed = [D("d"), F("d/a.txt", TXT), E("d/empty"), F("d/b.bin", BIN), L("d/l", "a.txt")]
    S["mixed"] = (mixed, [{"coders": [{"m": RC.M_LZMA2}], "n": 3}], {"header": "raw"}, None)
    S["mixed-copy"] = (mixed, [{"coders": [{"m": RC.M_COPY}], "n": 3}], {"header": "raw"}, None)
    S["aes-lzma2"] = (three, [{"coders": [{"m": RC.M_AES, "cycles": 3}, {"m": RC.M_LZMA2}], "n": 3}], {"header": "raw"}, "pw")
    S["aes-copy"] = (three, [{"coders": [{"m": RC.M_AES, "cycles": 2}, {"m": RC.M_COPY}], "n": 3}], {"header": "raw"}, "pw")
    S["aes-hdr"] = (three, [{"coders": [{"m": RC.M_AES, "cycles": 3}, {"m": RC.M_LZMA2}], "n": 3}], {"header": "aes", "hdr_cycles": 3}, "pw")
    S["packpos-crc"] = (three, [{"coders": [{"m": RC.M_COPY}], "n": 2}, {"coders": [{"m": RC.M_LZMA2}], "n": 1}], {"header": "raw", "packpos": 9, "pack_crc": True}, None)
    noattr = [dict(D("d"), attr=None), dict(F("d/a.txt", TXT), attr=None), dict(D("e"), attr=None), F("top.bin", BIN)]
    S["noattr-dirs"] = (noattr, [{"coders": [{"m": RC.M_LZMA2}], "n": 2}], {"header": "lzma"}, None)
    # a member whose CRC-32 is 0: a stored digest that a truthiness test mistakes for "no digest"
    zero = [F("zero.bin", G.force_crc(TXT_FULL[:96], 0)), F("b.bin", BIN[:30])]
    S["crc0-copy"] = (zero, [{"coders": [{"m": RC.M_COPY}], "n": 2}], {"header": "raw"}, None)
    S["crc0-lzma2"] = (zero[:1], [{"coders": [{"m": RC.M_LZMA2}], "n": 1}], {"header": "raw"}, None)
    S["foldercrc"] = (three[:1], [{"coders": [{"m": RC.M_LZMA2}], "n": 1, "fcrc": True}], {"header": "raw"}, None)
    return S


def build_ref(name, small=False):
    files, folders, opts, pw = ref_specs(small)[name]
    return RW.build([dict(f) for f in files], [dict(fo, coders=[dict(c) for c in fo["coders"]]) for fo in folders], opts, pw), opts, pw


def model_of(files):
    """logical members delivered through a WriterFactory: name -> bytes (directories excluded)"""
    out = {}
    for f in files:
        if f.get("es") and not f.get("ef"):
            continue
        out[f["name"]] = f.get("data", b"")
    return out


PY_SEEDS = {
    "py-default": (None, None, "encoded"),
    "py-copy-raw": ([{"id": 0x33}], None, "raw"),
    "py-lzma-raw": ([{"id": 0x4000000000000001, "preset": 1}], None, "raw"),
    "py-bzip2": ([{"id": 0x31}], None, "encoded"),
    "py-zstd": ([{"id": 0x35, "level": 1}], None, "encoded"),
    "py-deflate": ([{"id": 0x32}], None, "raw"),
    "py-ppmd": ([{"id": 0x36, "order": 6, "mem": 20}], None, "encoded"),
    "py-aes": (None, "pw", "encoded"),
    "py-aes-hdr": (None, "pw", "encrypted"),
    "py-copy-aes": ([{"id": 0x33}, {"id": 0x06F10701}], "pw", "raw"),
}


def build_py(name, members=None, sessions=1, small=False):
    """py7zr-written seed -> (bytes, model dict, password)"""
    import py7zr

    filters, pw, hdr = PY_SEEDS[name]
    if small:
        members = members or [("a.txt", TXT_FULL[:60]), ("dir/b.bin", BIN_FULL[:40]), ("c", b"x")]
    members = members or [("a.txt", TXT), ("dir/b.bin", BIN), ("c", b"x")]
    bio = io.BytesIO()
    kw = {"header_encryption": True} if hdr == "encrypted" else {}
    per = max(1, (len(members) + sessions - 1) // sessions)
    for s in range(sessions):
        bio.seek(0)
        with py7zr.SevenZipFile(bio, "w" if s == 0 else "a", filters=filters, password=pw, **kw) as z:
            if hdr == "raw":
                z.set_encoded_header_mode(False)
            for n, d in members[s * per:(s + 1) * per]:
                z.writestr(d, n)
    return bio.getvalue(), dict(members), pw
