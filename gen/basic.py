"""Shared Hypothesis strategies: names, contents, filter chains, header modes.
Every generated value is JSON-able; helpers turn descriptors into real objects."""
import hashlib
import struct

from hypothesis import strategies as st

# ---------------------------------------------------------------- names

_ASCII = "abcdefghijklmnopqrstuvwxyzABCDEFGHIJKLMNOPQRSTUVWXYZ0123456789"
_PUNCT = " !#$%&'()+,-;=@[]^_`{}~."
_BMP = "äöüßéñЖ中文日本́̈�￾￿​‮"
_ASTRAL = "\U0001f600\U0001f4a9\U00010000\U0010ffff\U0002f800"
_CTRL = "".join(chr(c) for c in list(range(1, 32)) + [127])

_ALPHA = st.one_of(
    st.sampled_from(_ASCII), st.sampled_from(_ASCII), st.sampled_from(_ASCII), st.sampled_from(_PUNCT),
    st.sampled_from(_BMP), st.sampled_from(_ASTRAL), st.sampled_from(_CTRL),
    st.characters(exclude_categories=["Cs"], exclude_characters="/\\\x00"))


def component(max_len=24, fs_safe=False):
    def ok(s):
        if s in (".", "..") or not s:
            return False
        if fs_safe and len(s.encode("utf-8")) > 255:
            return False
        return True

    base = st.text(_ALPHA, min_size=1, max_size=max_len)
    special = st.sampled_from(["c:", ".hidden", "c:x", " lead", "trail ", "a.b.c", "...", "..a", "-", "~", "C:"])
    return st.one_of(base, base, base, special).filter(ok)


def rel_name(max_comp=6, max_len=24, fs_safe=False):
    return st.lists(component(max_len, fs_safe), min_size=1, max_size=max_comp).map("/".join)


def simple_name(max_comp=3):
    return st.lists(st.text(_ASCII, min_size=1, max_size=6), min_size=1, max_size=max_comp).map("/".join)


def distinct_names(n_min=0, n_max=6, name=None, prefix_free=False):
    name = rel_name() if name is None else name

    def stored(n):
        # distinct also as write() stores them (leading separators and one drive prefix removed): 'C:' and 'c:' both become '.'
        import re

        m = n.lstrip("/")
        if re.match(r"^[a-zA-Z]:", m):
            m = m[2:].lstrip("/")
        return m or "."

    s = st.lists(name, min_size=n_min, max_size=n_max, unique_by=(lambda n: n, stored))
    if prefix_free:
        def pf(names):
            for a in names:
                for b in names:
                    if a != b and (b.startswith(a)):
                        return False
            return True
        s = s.filter(pf)
    return s


def name_classes(name: str):
    cls = set()
    if any(ord(c) > 0xFFFF for c in name):
        cls.add("astral")
    if any(0x7F < ord(c) <= 0xFFFF for c in name):
        cls.add("bmp-nonascii")
    if any(ord(c) < 32 or ord(c) == 127 for c in name):
        cls.add("control")
    if " " in name:
        cls.add("space")
    if "/" in name:
        cls.add("nested")
    if any(p.startswith(".") for p in name.split("/")):
        cls.add("leading-dot")
    if any(len(p) >= 2 and p[1] == ":" and p[0].isalpha() for p in name.split("/")):
        cls.add("drive-like")
    return sorted(cls) or ["plain"]


# ---------------------------------------------------------------- contents

TEXTURES = ["random", "zeros", "period", "text", "x86", "arm"]
BOUNDARY_LENGTHS = [0, 1, 15, 16, 17, 31, 32, 33, 255, 256, 4095, 4096, 4097, 32767, 32768, 32769, 65535, 65536, 65537, 16383, 16384, 16385]
BIG_LENGTHS = [(1 << 20) - 1, 1 << 20, (1 << 20) + 1, 2 * (1 << 20) + 1, 2097151, 2097152, 2097153]


def expand(desc) -> bytes:
    """desc: ["hex", "..."] | ["gen", texture, length, seed]"""
    if desc[0] == "hex":
        return bytes.fromhex(desc[1])
    _, tex, n, seed = desc
    n = max(0, int(n))
    if n == 0:
        return b""
    if tex == "zeros":
        return bytes(n)
    if tex == "random":
        return hashlib.shake_256(struct.pack("<Q", seed & 0xFFFFFFFFFFFFFFFF)).digest(n)
    if tex == "period":
        p = hashlib.sha256(struct.pack("<Q", seed)).digest()[: 1 + seed % 31]
        return (p * (n // len(p) + 1))[:n]
    if tex == "text":
        words = [b"the ", b"quick ", b"brown ", b"fox ", b"jumps\n", b"over ", b"lazy ", b"dog. ", b"7z ", b"\xc3\xa4 "]
        h = hashlib.shake_256(struct.pack("<Q", seed)).digest(max(16, n // 4 + 1))
        out = bytearray()
        i = 0
        while len(out) < n:
            out += words[h[i % len(h)] % len(words)]
            i += 1
        return bytes(out[:n])
    if tex in ("x86", "arm"):
        h = hashlib.shake_256(struct.pack("<Q", seed)).digest(n)
        out = bytearray(h)
        # sprinkle relative calls so branch filters actually transform bytes
        step = 7 if tex == "x86" else 8
        for i in range(0, n - 8, step):
            if tex == "x86":
                out[i] = 0xE8 if (h[i] & 1) else 0xE9
                out[i + 4] = 0x00 if (h[i] & 2) else 0xFF
            else:
                out[i + 3] = 0xEB
        return bytes(out)
    raise ValueError(tex)


def size_class(n: int) -> str:
    if n == 0:
        return "0"
    if n < 16:
        return "<16"
    if n in (16, 32):
        return "aes-block"
    if n in (15, 17, 31, 33):
        return "aes-edge"
    if n < 4095:
        return "<4k"
    if n <= 4097:
        return "4k-edge"
    if n < 32767:
        return "<32k"
    if n <= 32769:
        return "32k-edge"
    if n < 65535:
        return "<64k"
    if n <= 65537:
        return "64k-edge"
    if n < (1 << 20) - 1:
        return "<1M"
    if n <= (1 << 20) + 1:
        return "1M-edge"
    return ">1M"


def contents(max_len=70000, big=False, blocksize=None):
    lens = [st.sampled_from(BOUNDARY_LENGTHS), st.integers(0, 64), st.integers(0, 2000), st.integers(0, max_len)]
    if big:
        lens.append(st.sampled_from(BIG_LENGTHS))
    if blocksize:
        lens.append(st.builds(lambda k, d: max(0, k * blocksize + d), st.integers(1, 5), st.integers(-1, 1)))
    gen = st.tuples(st.just("gen"), st.sampled_from(TEXTURES), st.one_of(*lens), st.integers(0, 1 << 32)).map(list)
    raw = st.binary(max_size=64).map(lambda b: ["hex", b.hex()])
    # contents whose CRC-32 is 0 / 0xFFFFFFFF: a defined digest that looks like "nothing" to a truthiness test
    special = st.sampled_from([["hex", "9d0ad96d"], ["hex", "ffffffff"], ["hex", ""]])
    return st.one_of(gen, gen, gen, gen, gen, raw, raw, special)


def content_len(desc) -> int:
    return len(desc[1]) // 2 if desc[0] == "hex" else int(desc[2])


# ---------------------------------------------------------------- filter chains (py7zr filter dicts, JSON-able)

F_LZMA, F_LZMA2, F_DELTA = 0x4000000000000001, 0x21, 0x03
F_X86, F_PPC, F_IA64, F_ARM, F_ARMT, F_SPARC = 4, 5, 6, 7, 8, 9
F_BZIP2, F_DEFLATE, F_COPY, F_ZSTD, F_PPMD, F_BROTLI, F_DEFLATE64 = 0x31, 0x32, 0x33, 0x35, 0x36, 0x37, 0x38
F_AES = 0x06F10701
PRESET_EXTREME = 0x80000000

FILTER_NAMES = {F_LZMA: "LZMA", F_LZMA2: "LZMA2", F_DELTA: "Delta", F_X86: "X86", F_PPC: "PPC", F_IA64: "IA64", F_ARM: "ARM",
                F_ARMT: "ARMT", F_SPARC: "SPARC", F_BZIP2: "BZip2", F_DEFLATE: "Deflate", F_COPY: "Copy", F_ZSTD: "ZStandard",
                F_PPMD: "PPMd", F_BROTLI: "Brotli", F_DEFLATE64: "Deflate64", F_AES: "7zAES"}

BCJ_NATIVE = [F_X86, F_ARM, F_ARMT, F_PPC, F_SPARC, F_IA64]
BCJ_ALT = [F_X86, F_ARM, F_ARMT, F_PPC, F_SPARC]


def _lzma_family():
    preset = st.builds(lambda p, e: p | (PRESET_EXTREME if e else 0), st.integers(0, 9), st.booleans())
    main = st.one_of(
        preset.map(lambda p: {"id": F_LZMA2, "preset": p}),
        st.integers(0, 9).map(lambda p: {"id": F_LZMA, "preset": p}),
    )
    delta = st.one_of(st.none(), st.integers(1, 256).map(lambda d: {"id": F_DELTA, "dist": d}))
    bcj = st.one_of(st.none(), st.sampled_from(BCJ_NATIVE).map(lambda i: {"id": i}))
    return st.tuples(delta, bcj, main).map(lambda t: [x for x in t if x is not None])


def _alt_family():
    main = st.one_of(
        st.just({"id": F_BZIP2}), st.just({"id": F_DEFLATE}), st.just({"id": F_DEFLATE64}), st.just({"id": F_COPY}),
        st.integers(1, 19).map(lambda l: {"id": F_ZSTD, "level": l}),
        # KF-72 (open, dependency): pyppmd cannot round-trip > ~90 kB of incompressible input through a model of exactly 1 MiB.
        # The general strategy constructs around that size (2 MiB instead); C01 keeps it in its covering pass and pin, where the
        # defect is decided by running the library alone.
        st.builds(lambda o, m: {"id": F_PPMD, "order": o, "mem": m}, st.integers(2, 16),
                  st.one_of(st.sampled_from([16, 17, 18, 19, 21, 22, 23, 24, 25, 26]), st.sampled_from(["16m", "4m", "512k", "24", "2m"]))),
        st.integers(0, 11).map(lambda l: {"id": F_BROTLI, "level": l}),
    )
    bcj = st.one_of(st.none(), st.none(), st.sampled_from(BCJ_ALT).map(lambda i: {"id": i}))
    return st.tuples(bcj, main).map(lambda t: [x for x in t if x is not None])


PW_UNNORMALISED = ["re\u0301sume\u0301-42", "\u212bngstro\u0308m", "\ufb01nal", "\u1e9b\u0323", "A\u030a"]


def filter_chains(allow_aes=True, allow_default=True):
    """returns dict(filters=list|None, password=str|None)"""
    base = st.one_of(_lzma_family(), _alt_family())
    # passwords that are not in Unicode normal form (combining accent, Angstrom sign, compatibility ligature): the key is derived
    # from the UTF-16 code units as typed, whatever a normaliser would make of them
    pw = st.one_of(st.just("secret"), st.sampled_from(PW_UNNORMALISED), st.text(min_size=0, max_size=8).filter(lambda s: "\x00" not in s or True))
    plain = base.map(lambda f: {"filters": f, "password": None})
    opts = [plain, plain]
    if allow_aes:
        opts.append(st.tuples(base, pw).map(lambda t: {"filters": t[0] + [{"id": F_AES}], "password": t[1]}))
        opts.append(pw.map(lambda p: {"filters": [{"id": F_AES}], "password": p}))
    if allow_default:
        opts.append(st.just({"filters": None, "password": None}))
        if allow_aes:
            opts.append(pw.map(lambda p: {"filters": None, "password": p}))
    return st.one_of(*opts)


def chain_id(filters) -> str:
    if filters is None:
        return "default"
    parts = []
    for f in filters:
        s = FILTER_NAMES.get(f["id"], hex(f["id"]))
        extra = [str(f[k]) for k in ("preset", "dist", "level", "order", "mem") if k in f]
        if extra:
            s += ":" + ":".join(extra)
        parts.append(s)
    return "+".join(parts)


def chain_family(filters) -> str:
    if filters is None:
        return "default"
    return "+".join(FILTER_NAMES.get(f["id"], hex(f["id"])) for f in filters)


HEADER_MODES = ["raw", "encoded", "encrypted-flag", "encrypted-setter", "encrypted-flag+enc", "encrypted-setter+enc"]


def force_crc(prefix: bytes, target: int = 0) -> bytes:
    """prefix + 4 bytes chosen such that the CRC-32 of the whole equals `target` (CRC-32 is affine in the last four bytes)"""
    import zlib

    base = zlib.crc32(prefix + b"\0\0\0\0")
    basis = {}
    for i in range(32):
        v = zlib.crc32(prefix + (1 << i).to_bytes(4, "little")) ^ base
        t = 1 << i
        for b in sorted(basis, reverse=True):
            if v >> b & 1:
                v ^= basis[b][0]
                t ^= basis[b][1]
        if v:
            basis[v.bit_length() - 1] = (v, t)
    v, t = base ^ target, 0
    for b in sorted(basis, reverse=True):
        if v >> b & 1:
            v ^= basis[b][0]
            t ^= basis[b][1]
    out = prefix + t.to_bytes(4, "little")
    assert zlib.crc32(out) == target
    return out
