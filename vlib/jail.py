"""Audit-hook filesystem jail + before/after snapshot (C03; snapshot also used by C09/C19)."""
import hashlib
import os
import stat
import sys
import threading

_state = {"installed": False, "active": None}
_lock = threading.Lock()

WRITE_FLAGS = os.O_WRONLY | os.O_RDWR | os.O_CREAT | os.O_TRUNC | os.O_APPEND


class JailBlocked(PermissionError):
    pass


class Active:
    def __init__(self, dest_real, root_real=None):
        self.dest = dest_real
        self.root = root_real  # writes outside this directory are *blocked* (host protection), not only recorded
        self.blocked = 0
        self.events = []  # (event, lexical path, resolved location, inside?)
        self.violations = []
        self.errors = []


def _abspath(p):
    if isinstance(p, bytes):
        p = os.fsdecode(p)
    p = os.fspath(p)
    if isinstance(p, bytes):
        p = os.fsdecode(p)
    return p if os.path.isabs(p) else os.path.join(os.getcwd(), p)


def _loc_entry(p):
    """location of a directory entry that is created/removed/replaced (final component not followed)"""
    ap = os.path.normpath(_abspath(p)) if False else _abspath(p)
    ap = ap.rstrip("/") or "/"
    parent, name = os.path.split(ap)
    if name in ("", ".", ".."):
        return os.path.realpath(ap)
    return os.path.join(os.path.realpath(parent), name)


def _loc_follow(p):
    """location affected when the final component is followed (open for writing, chmod, utime, truncate)"""
    return os.path.realpath(_abspath(p))


def _inside(loc, dest):
    return loc == dest or loc.startswith(dest + os.sep)


def _no_effect(event, loc):
    """calls that are bound to fail without modifying anything (decided before the call executes)"""
    try:
        if event == "os.mkdir" or event == "os.symlink":
            return os.path.lexists(loc)  # FileExistsError
        if event == "open":
            return os.path.isdir(loc)  # IsADirectoryError
        if event in ("os.remove", "os.rmdir", "os.chmod", "os.utime", "os.truncate"):
            return not os.path.lexists(loc)  # FileNotFoundError
    except OSError:
        pass
    return False


def _hook(event, args):
    a = _state["active"]
    if a is None:
        return
    try:
        loc = None
        path = None
        if event == "open":
            path, mode, flags = args[0], args[1], args[2]
            if isinstance(path, int) or path is None:
                return
            if not (isinstance(flags, int) and flags & WRITE_FLAGS):
                if not (isinstance(mode, str) and any(c in mode for c in "wax+")):
                    return
            loc = _loc_follow(path)
        elif event in ("os.mkdir", "os.rmdir", "os.remove"):
            path = args[0]
            loc = _loc_entry(path)
        elif event == "os.symlink":
            path = args[1]
            loc = _loc_entry(path)
        elif event in ("os.chmod", "os.utime", "os.truncate", "os.chown"):
            path = args[0]
            if isinstance(path, int):
                return
            loc = _loc_follow(path)
        elif event in ("os.rename", "os.link"):
            for path in (args[0], args[1]):
                loc = _loc_entry(path)
                ok = _inside(loc, a.dest)
                a.events.append((event, str(path), loc, ok))
                if not ok and not (event == "os.link" and path is args[0]):
                    a.violations.append((event, str(path), loc))
                    if a.root and not _inside(loc, a.root):
                        a.blocked += 1
                        raise JailBlocked("jail: %s outside %s" % (loc, a.root))
            return
        else:
            return
        ok = _inside(loc, a.dest)
        a.events.append((event, str(path), loc, ok))
        if not ok and _no_effect(event, loc):
            return
        if not ok:
            a.violations.append((event, str(path), loc))
            if a.root and not _inside(loc, a.root):
                a.blocked += 1
                raise JailBlocked("jail: %s outside %s" % (loc, a.root))
    except JailBlocked:
        raise
    except Exception as e:  # never let the hook disturb the code under test
        a.errors.append("%s: %r" % (event, e))


def install():
    with _lock:
        if not _state["installed"]:
            sys.addaudithook(_hook)
            _state["installed"] = True


def activate(dest, root=None):
    a = Active(os.path.realpath(dest), os.path.realpath(root) if root else None)
    _state["active"] = a
    return a


def deactivate():
    _state["active"] = None


def snapshot(root, exclude=None):
    """{relative path: (kind, size, mode, mtime_ns, digest-or-linktext)} for everything under root except `exclude`"""
    out = {}
    exclude = os.path.abspath(exclude) if exclude else None
    for dirpath, dirnames, filenames in os.walk(root, followlinks=False):
        if exclude and (dirpath == exclude or dirpath.startswith(exclude + os.sep)):
            dirnames[:] = []
            continue
        keep = []
        for d in dirnames:
            p = os.path.join(dirpath, d)
            if exclude and p == exclude:
                continue
            keep.append(d)
        for n in list(dirnames) + filenames:
            p = os.path.join(dirpath, n)
            if exclude and (p == exclude or p.startswith(exclude + os.sep)):
                continue
            try:
                st = os.lstat(p)
            except OSError:
                continue
            rel = os.path.relpath(p, root)
            if stat.S_ISLNK(st.st_mode):
                out[rel] = ("link", 0, 0, 0, os.readlink(p))
            elif stat.S_ISDIR(st.st_mode):
                out[rel] = ("dir", 0, stat.S_IMODE(st.st_mode), st.st_mtime_ns, "")
            else:
                try:
                    with open(p, "rb") as f:
                        dg = hashlib.sha1(f.read()).hexdigest()
                except OSError:
                    dg = "?"
                out[rel] = ("file", st.st_size, stat.S_IMODE(st.st_mode), st.st_mtime_ns, dg)
        dirnames[:] = [d for d in keep if not os.path.islink(os.path.join(dirpath, d))]
    return out


def diff_snap(a, b):
    d = []
    for k in sorted(set(a) | set(b)):
        if a.get(k) != b.get(k):
            # a directory's mtime changes when an entry is added; report the entry itself instead
            if k in a and k in b and a[k][0] == "dir" and b[k][0] == "dir" and a[k][2] == b[k][2]:
                continue
            d.append((k, a.get(k), b.get(k)))
    return d
