"""Child-process executor: a persistent forked child runs check.execute(case); the parent
enforces a wall-clock watchdog, kills and replaces the child on expiry, and reports the
stack the child was in (faulthandler dump) so distinct spins get distinct signatures."""
import faulthandler
import gc
import multiprocessing
import os
import re
import signal
import tempfile
import time
import traceback


def vm_hwm_kb():
    try:
        with open("/proc/self/status") as f:
            for line in f:
                if line.startswith("VmHWM:"):
                    return int(line.split()[1])
    except OSError:
        pass
    return -1


def vm_rss_kb():
    try:
        with open("/proc/self/status") as f:
            for line in f:
                if line.startswith("VmRSS:"):
                    return int(line.split()[1])
    except OSError:
        pass
    return -1


def reset_hwm():
    try:
        with open("/proc/self/clear_refs", "w") as f:
            f.write("5")
        return True
    except OSError:
        return False


def _child_loop(check, env, conn, dumpfile, timeout):
    # runs in the forked child
    try:
        dump = open(dumpfile, "w")
    except OSError:
        dump = None
    signal.signal(signal.SIGTERM, signal.SIG_DFL)
    try:
        os.setpgid(0, 0)  # own process group: worker processes started by the code under test die with this child
    except OSError:
        pass
    while True:
        try:
            msg = conn.recv()
        except EOFError:
            break
        if msg is None:
            break
        case = msg
        if dump is not None:
            dump.seek(0)
            dump.truncate()
            faulthandler.dump_traceback_later(max(1.0, timeout - 1.0), repeat=False, file=dump, exit=False)
        reset_hwm()
        rss0 = vm_rss_kb()
        res = None
        for attempt in range(3):
            try:
                out = check.execute(case, env)
                res = ("ok", out)
                break
            except SystemError as e:
                # "<function> returned a result with an exception set": the destructor of a codec extension object
                # (inflate64.Deflater freed with pending data after a failed write of an EARLIER case) left an error behind that
                # the next unrelated C call trips over.  It says nothing about this case: clear it and run the case again.
                res = ("exc", type(e).__name__, traceback.format_exc())
                if "with an exception set" not in str(e):
                    break
                try:
                    gc.collect()
                except BaseException:
                    pass
            except BaseException as e:  # includes SystemExit/KeyboardInterrupt raised by the code under test
                res = ("exc", type(e).__name__, traceback.format_exc())
                break
        # a codec extension object freed with pending data (inflate64.Deflater after a failed write) sets an error in its
        # destructor; absorb it here so that it cannot surface as a SystemError in harness code
        for _ in range(3):
            try:
                gc.collect()
                break
            except BaseException:
                continue
        try:
            if res[0] == "ok":
                res[1].extra["_hwm_growth_kb"] = max(0, vm_hwm_kb() - rss0)
        except BaseException:
            pass
        if dump is not None:
            faulthandler.cancel_dump_traceback_later()
        try:
            conn.send(res)
        except Exception:
            conn.send(("exc", "PickleError", traceback.format_exc()))
    os._exit(0)


_FRAME = re.compile(r'File "([^"]+)", line (\d+) in (\S+)')


def innermost_frame(dump_text, needle="/py7zr/"):
    """first thread block of a faulthandler dump lists most recent call first"""
    blocks = re.split(r"\n(?=Thread |Current thread )", dump_text)
    best = None
    for b in blocks:
        for m in _FRAME.finditer(b):
            if needle in m.group(1):
                fr = "%s:%s" % (os.path.basename(m.group(1)), m.group(3))
                if "Current thread" in b or b is blocks[0]:
                    return fr
                best = best or fr
                break
    return best


class Sandbox:
    def __init__(self, check, env, timeout):
        self.check = check
        self.env = env
        self.timeout = timeout
        self.ctx = multiprocessing.get_context("fork")
        self.proc = None
        self.conn = None
        self.dumpfile = None
        self.respawns = 0

    def _spawn(self):
        fd, self.dumpfile = tempfile.mkstemp(prefix="fh-", dir=self.env.scratch)
        os.close(fd)
        pc, cc = self.ctx.Pipe(duplex=True)
        self.proc = self.ctx.Process(target=_child_loop, args=(self.check, self.env, cc, self.dumpfile, self.timeout))
        self.proc.daemon = False  # checks may exercise process-based workers of their own
        self.proc.start()
        cc.close()
        self.conn = pc

    def _kill(self):
        if self.proc is not None:
            try:
                pid = self.proc.pid
                try:
                    if pid and os.getpgid(pid) == pid:
                        os.killpg(pid, signal.SIGKILL)  # the child and whatever it started
                except OSError:
                    pass
                self.proc.kill()
                self.proc.join(5)
            except Exception:
                pass
        if self.conn is not None:
            try:
                self.conn.close()
            except Exception:
                pass
        self.proc = None
        self.conn = None

    def close(self):
        if self.proc is not None and self.proc.is_alive():
            try:
                self.conn.send(None)
                self.proc.join(2)
            except Exception:
                pass
        self._kill()

    def execute(self, case):
        """-> ("ok", Outcome) | ("exc", name, traceback) | ("hang", frame, dump) | ("died", exitcode, dump)"""
        if self.proc is None or not self.proc.is_alive():
            self._spawn()
        t0 = time.time()
        try:
            self.conn.send(case)
        except (BrokenPipeError, OSError):
            self._kill()
            self._spawn()
            self.conn.send(case)
        ok = False
        try:
            ok = self.conn.poll(self.timeout)
        except (EOFError, OSError):
            ok = True
        if ok:
            try:
                res = self.conn.recv()
                return res
            except (EOFError, OSError):
                self.proc.join(5)
                code = self.proc.exitcode
                dump = self._read_dump()
                self._kill()
                self.respawns += 1
                return ("died", code, dump)
        # watchdog expiry
        time.sleep(0.05)
        dump = self._read_dump()
        self._kill()
        self.respawns += 1
        return ("hang", innermost_frame(dump), dump[-3000:], time.time() - t0)

    def _read_dump(self):
        try:
            with open(self.dumpfile) as f:
                return f.read()
        except OSError:
            return ""
