"""Deterministic gate scheduler for py7zr's worker threads (C13, C18).

A *gate* is a call `point(label)` made from harness-owned code that worker threads
execute (WriterFactory.create, Py7zIO.write, callback handlers, the `open` audit event).
The worker parks on its own Event.  A controller thread repeatedly waits until every live
worker is parked (or dead), picks one according to the schedule, and releases it.  The
schedule (a list of integers) is the only source of ordering; it is data."""
import threading
import time


class Deadlock(Exception):
    pass


class Scheduler:
    def __init__(self, schedule=None, key_of=None, settle=0.002, guard=10.0):
        self.schedule = list(schedule or [])
        self.key_of = key_of or (lambda label: label)
        self.settle = settle
        self.guard = guard
        self.lock = threading.Lock()
        self.parked = {}  # thread -> (event, key, label)
        self.keys = {}  # thread -> key (first gate decides)
        self.trace = []  # (decision index, options, chosen key, label)
        self.options = []  # number of options at each decision (for DFS exploration)
        self.caller = None
        self.baseline = set()
        self.ignored = set()
        self.stop = False
        self.controller = None
        self.error = None
        self.active = False

    # ---- called by worker threads
    def point(self, label):
        if not self.active:
            return
        t = threading.current_thread()
        if t is self.caller or t is self.controller or t in self.ignored or t in self.baseline:
            return
        ev = threading.Event()
        with self.lock:
            if t not in self.keys:
                self.keys[t] = self.key_of(label)
            self.parked[t] = (ev, self.keys[t], label)
        if not ev.wait(self.guard * 3):
            raise Deadlock("worker never released at %r" % (label,))

    def ignore_current_thread(self):
        self.ignored.add(threading.current_thread())

    # ---- controller
    def start(self):
        self.caller = threading.current_thread()
        self.baseline = set(threading.enumerate())
        self.active = True
        self.controller = threading.Thread(target=self._run, name="verif-sched", daemon=True)
        self.controller.start()

    def finish(self):
        self.stop = True
        self.active = False
        # release anything still parked so that no thread outlives the case
        with self.lock:
            for ev, _, _ in self.parked.values():
                ev.set()
            self.parked.clear()
        if self.controller is not None:
            self.controller.join(2)

    def _workers(self):
        return [t for t in threading.enumerate() if t not in self.baseline and t is not self.controller and t not in self.ignored and t.is_alive()]

    def _run(self):
        idle_since = time.time()
        step = 0
        try:
            while not self.stop:
                workers = self._workers()
                with self.lock:
                    parked = {t: v for t, v in self.parked.items() if t.is_alive()}
                if workers and all(w in parked for w in workers):
                    # let the set settle: a new worker may be about to start
                    time.sleep(self.settle)
                    workers2 = self._workers()
                    with self.lock:
                        parked = {t: v for t, v in self.parked.items() if t.is_alive()}
                    if set(workers2) != set(workers) or not all(w in parked for w in workers2):
                        continue
                    order = sorted(parked.items(), key=lambda kv: (str(kv[1][1]), kv[0].ident))
                    k = len(order)
                    choice = self.schedule[step] % k if step < len(self.schedule) else 0
                    t, (ev, key, label) = order[choice]
                    self.options.append(k)
                    self.trace.append((step, k, key, label))
                    step += 1
                    with self.lock:
                        del self.parked[t]
                    ev.set()
                    idle_since = time.time()
                elif not workers:
                    time.sleep(0.0005)
                    idle_since = time.time()
                else:
                    time.sleep(0.0005)
                    if time.time() - idle_since > self.guard:
                        self.error = "scheduler guard: workers neither park nor finish"
                        with self.lock:
                            for ev, _, _ in self.parked.values():
                                ev.set()
                            self.parked.clear()
                        return
        except Exception as e:  # pragma: no cover
            self.error = repr(e)


def next_schedule(options, schedule):
    """odometer step for depth-first enumeration of all schedules: `options[i]` = number of choices seen at decision i
    when running `schedule` (padded with zeros).  Returns the next schedule or None when the space is exhausted."""
    s = [(schedule[i] % options[i]) if i < len(schedule) else 0 for i in range(len(options))]
    i = len(s) - 1
    while i >= 0:
        if s[i] + 1 < options[i]:
            s[i] += 1
            return s[: i + 1]
        i -= 1
    return None
