"""Harness-side attribute patching of internal knobs the properties quantify over."""
import contextlib
import hashlib
import struct


class DetRandom:
    """seeded counter-mode SHA-256 byte stream standing in for Cryptodome get_random_bytes"""

    def __init__(self, seed: int):
        self.seed = seed
        self.ctr = 0

    def __call__(self, n: int) -> bytes:
        out = b""
        while len(out) < n:
            out += hashlib.sha256(struct.pack("<QQ", self.seed & 0xFFFFFFFFFFFFFFFF, self.ctr)).digest()
            self.ctr += 1
        return out[:n]


_state = {"iv": None}


def deterministic_iv(seed: int) -> bool:
    import py7zr.compressor as pc

    if not hasattr(pc, "get_random_bytes"):
        return False
    if "orig_iv" not in _state:
        _state["orig_iv"] = pc.get_random_bytes
    pc.get_random_bytes = DetRandom(seed)
    return True


def real_iv():
    import py7zr.compressor as pc

    if "orig_iv" in _state:
        pc.get_random_bytes = _state["orig_iv"]


@contextlib.contextmanager
def blocksize(n):
    """patch the internal I/O block size (None = default)"""
    import py7zr.compressor as pc
    import py7zr.py7zr as pp

    if n is None:
        yield True
        return
    saved = []
    ok = False
    for mod in (pc, pp):
        if hasattr(mod, "get_default_blocksize"):
            saved.append((mod, mod.get_default_blocksize))
            mod.get_default_blocksize = (lambda n=n: n)
            ok = True
    try:
        yield ok
    finally:
        for mod, f in saved:
            mod.get_default_blocksize = f


@contextlib.contextmanager
def memory_limit(n):
    """patch the extraction chunk limit (None = default)"""
    import py7zr.py7zr as pp

    if n is None or not hasattr(pp, "get_memory_limit"):
        yield n is None
        return
    saved = pp.get_memory_limit
    pp.get_memory_limit = (lambda n=n: n)
    try:
        yield True
    finally:
        pp.get_memory_limit = saved
