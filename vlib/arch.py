"""Helpers to drive py7zr's public API from JSON case descriptors (shared by several checks)."""
import io
import os
import sys

import py7zr
from py7zr.io import BytesIOFactory

from gen import basic as G

BIG = 1 << 40


class Target:
    """archive location of one of the kinds the property quantifies over"""

    def volumes(self) -> int:
        """number of volume files on disk (multivolume targets)"""
        if self.kind != "multivolume":
            return 0
        import glob

        return len(glob.glob(glob.escape(self.path) + ".*"))

    def __init__(self, kind, workdir, volume=None, name="t.7z"):
        self.kind = kind
        self.workdir = workdir
        self.path = os.path.join(workdir, name)
        self.volume = volume
        self.bio = None
        self._open = []

    def for_write(self, mode="w"):
        k = self.kind
        if k == "path":
            return self.path
        if k == "pathlib":
            import pathlib

            return pathlib.Path(self.path)
        if k == "bytesio":
            if self.bio is None or mode == "w":
                self.bio = io.BytesIO()
            else:
                self.bio.seek(0)
            return self.bio
        if k == "file":
            f = open(self.path, "w+b" if mode == "w" else "r+b")
            self._open.append(f)
            return f
        if k == "multivolume":
            import multivolumefile

            f = multivolumefile.MultiVolume(self.path, mode="wb" if mode == "w" else "ab", volume=self.volume)
            self._open.append(f)
            return f
        raise ValueError(k)

    def for_read(self):
        k = self.kind
        if k in ("path", "pathlib"):
            return self.for_write("r")
        if k == "bytesio":
            return io.BytesIO(self.bio.getvalue())
        if k == "file":
            f = open(self.path, "rb")
            self._open.append(f)
            return f
        if k == "multivolume":
            import multivolumefile

            f = multivolumefile.MultiVolume(self.path, mode="rb")
            self._open.append(f)
            return f
        raise ValueError(k)

    def release(self):
        for f in self._open:
            try:
                f.close()
            except Exception:
                pass
        self._open = []

    def bytes(self) -> bytes:
        self.release()
        if self.kind == "bytesio":
            return self.bio.getvalue()
        if self.kind == "multivolume":
            out = b""
            i = 1
            while os.path.exists("%s.%04d" % (self.path, i)):
                with open("%s.%04d" % (self.path, i), "rb") as f:
                    out += f.read()
                i += 1
            return out
        with open(self.path, "rb") as f:
            return f.read()


def apply_header_mode(z, mode):
    if mode == "raw":
        z.set_encoded_header_mode(False)
    elif mode.startswith("encrypted-setter"):
        z.set_encrypted_header(True)
    if mode.endswith("+enc"):
        # asking for a compressed header after encryption was switched on must not switch it off again
        z.set_encoded_header_mode(True)


def open_write(target, filters, password, header, mode="w"):
    kw = {}
    if header.startswith("encrypted-flag"):
        kw["header_encryption"] = True
    z = py7zr.SevenZipFile(target, mode, filters=filters, password=password, **kw)
    apply_header_mode(z, header)
    return z


def member_bytes(m) -> bytes:
    """model content of a member descriptor {"name","data","api"}"""
    data = G.expand(m["data"])
    if m.get("api") == "writestr-str":
        return data.decode("latin-1").encode("utf-8")
    return data


def write_member(z, m, workdir):
    api = m.get("api", "writestr-bytes")
    data = G.expand(m["data"])
    name = m["name"]
    if api == "writestr-bytes":
        z.writestr(data, name)
    elif api == "writestr-str":
        z.writestr(data.decode("latin-1"), name)
    elif api == "writestr-bytearray":
        z.writestr(bytearray(data), name)
    elif api == "writestr-memoryview":
        z.writestr(memoryview(data), name)
    elif api == "writef-bytesio":
        z.writef(io.BytesIO(data), name)
    elif api == "writef-buffered":
        # a buffered reader without a file descriptor (what zipfile/tarfile hand out for their members)
        z.writef(io.BufferedReader(io.BytesIO(data)), name)
    elif api == "writef-file":
        off = m.get("offset", 3)
        p = os.path.join(workdir, "src-%d.bin" % (abs(hash(name)) % 100000))
        with open(p, "wb") as f:
            f.write(b"\xee" * off + data)
        with open(p, "rb") as f:
            f.seek(off)
            z.writef(f, name)
        os.unlink(p)
    else:
        raise ValueError(api)


def read_all(fileobj, password=None):
    """-> (names, {name: bytes}) through extractall(factory)"""
    with py7zr.SevenZipFile(fileobj, "r", password=password) as z:
        names = z.getnames()
        fac = BytesIOFactory(BIG)
        z.extractall(factory=fac)
        got = {}
        for k, v in fac.products.items():
            v.seek(0)
            got[k] = v.read()
    return names, got


def exc_sig(e):
    """(class name, innermost py7zr frame) of an exception"""
    import traceback

    tb = traceback.extract_tb(e.__traceback__)
    frame = None
    for fr in tb:
        if "/py7zr/" in fr.filename:
            frame = "%s:%s" % (os.path.basename(fr.filename), fr.name)
    return type(e).__name__, frame


# ---------------------------------------------------------------- KF-47 (open, dependency): inflate64's encoder
_PY2RC = {3: "03", 4: "03030103", 5: "03030205", 6: "03030401", 7: "03030501", 8: "03030701", 9: "03030805"}


def kf47(filters, datas) -> bool:
    """True iff the chain contains Deflate64 and the inflate64 library itself does not round-trip what this folder feeds it
    (members concatenated, passed through the filters in front of Deflate64).  Decided by running the library on the exact
    input, not by guessing from the symptom."""
    if not filters:
        return False
    ids = [f["id"] for f in filters]
    if G.F_DEFLATE64 not in ids:
        return False
    from ref7z import coders as RC

    data = b"".join(bytes(d) for d in datas)
    try:
        for f in filters[: ids.index(G.F_DEFLATE64)]:
            m = _PY2RC.get(f["id"])
            if m is None:
                return False
            coder = {"m": m}
            if f["id"] == 3:
                coder["dist"] = f.get("dist", 1)
            data = RC.encode_stage(coder, data)
    except Exception:
        return False
    return not RC.inflate64_roundtrips(data)


def kf49(filters, datas) -> bool:
    """KF-49 (open, dependency): the bcj library's streaming x86 decoder leaves an E8/E9 sequence in the last five bytes of the
    stream unconverted when the stream reaches it in pieces.  True iff the chain runs X86 through that library (any main codec
    but LZMA2) and the library, fed this folder's filtered stream byte by byte, disagrees with its own one-shot result."""
    if not filters:
        return False
    ids = [f["id"] for f in filters]
    if 4 not in ids or G.F_LZMA2 in ids:
        return False
    try:
        import bcj

        data = b"".join(bytes(d) for d in datas)
        e = bcj.BCJEncoder()
        enc = e.encode(data) + e.flush()
        one = bcj.BCJDecoder(len(enc)).decode(enc)
        d = bcj.BCJDecoder(len(enc))
        piecewise = b"".join(d.decode(enc[i:i + 1]) for i in range(len(enc)))
        return piecewise != one
    except Exception:
        return False


_KF72_PROBE = r"""
import sys, pyppmd
order, mem = int(sys.argv[1]), int(sys.argv[2])
data = sys.stdin.buffer.read()
enc = pyppmd.Ppmd7Encoder(order, mem)
out = enc.encode(data) + enc.flush()
dec = pyppmd.Ppmd7Decoder(order, mem)
res = bytearray()
pos = 0
while len(res) < len(data):
    if dec.needs_input:
        piece = out[pos:pos + (1 << 20)] or b"\0"
        pos += len(piece)
    else:
        piece = b""
    res += dec.decode(piece, len(data) - len(res))
sys.stdout.write("ok" if bytes(res) == data else "bad")
"""


def kf72(filters, datas) -> bool:
    """KF-72 (open, dependency): for some model sizes (seen: exactly 1 MiB, order >= 3) pyppmd cannot round-trip incompressible
    input that exhausts the model: decoding its own output gives wrong bytes, MemoryError or a segmentation fault.  True iff the
    chain contains PPMd and the library alone, in a process of its own, fails to round-trip (one-shot encode, then decode)
    exactly what this folder feeds it with the chain's order and memory size."""
    if not filters:
        return False
    ids = [f["id"] for f in filters]
    if G.F_PPMD not in ids:
        return False
    import subprocess
    import struct as _struct
    from ref7z import coders as RC

    try:
        from py7zr.compressor import PpmdCompressor

        at = ids.index(G.F_PPMD)
        order, mem = _struct.unpack("<BLBB", PpmdCompressor.encode_filter_properties(filters[at]))[:2]
        data = b"".join(bytes(d) for d in datas)
        for f in filters[:at]:
            m = _PY2RC.get(f["id"])
            if m is None:
                return False
            data = RC.encode_stage({"m": m}, data)
        r = subprocess.run([sys.executable, "-c", _KF72_PROBE, str(order), str(mem)], input=data, capture_output=True, timeout=300)
    except Exception:
        return False
    return r.returncode != 0 or r.stdout != b"ok"


def drain_compressors(z):
    """after a write call failed: flush the codec objects of the open folder so that none is freed with pending data"""
    try:
        folders = z.header.main_streams.unpackinfo.folders
    except Exception:
        return
    for fo in folders:
        comp = getattr(fo, "compressor", None)
        for stage in (getattr(comp, "chain", None) or []):
            try:
                stage.flush()
            except BaseException:
                pass


# --- KF-04: what py7zr fed the PPMd encoder, recorded so that the library alone can be run on exactly that -------------------
PPMD_FEEDS = []  # per encoder object of the current case: {"order", "mem", "pieces": [bytes], "size", "overflow"}
_PPMD_FEED_LIMIT = 8 << 20


def install_ppmd_recorder():
    """wrap py7zr.compressor.PpmdCompressor so that the input pieces of every encode() call are kept (up to 8 MiB per case);
    the wrapped methods do exactly what the originals do"""
    import py7zr.compressor as PC

    cls = PC.PpmdCompressor
    if getattr(cls, "_verif_recorded", False):
        return
    o_init, o_comp = cls.__init__, cls.compress

    def __init__(self, properties):
        o_init(self, properties)
        try:
            order, mem = self._decode_property(properties)
            self._verif_feed = {"order": order, "mem": mem, "pieces": [], "size": 0, "overflow": False}
            PPMD_FEEDS.append(self._verif_feed)
        except Exception:
            self._verif_feed = None

    def compress(self, data):
        fd = getattr(self, "_verif_feed", None)
        if fd is not None and not fd["overflow"]:
            if sum(f["size"] for f in PPMD_FEEDS) + len(data) > _PPMD_FEED_LIMIT:
                fd["overflow"] = True
                fd["pieces"] = []
            else:
                fd["pieces"].append(bytes(data))
                fd["size"] += len(data)
        return o_comp(self, data)

    cls.__init__ = __init__
    cls.compress = compress
    cls._verif_recorded = True


_KF04_PROBE = r"""
import sys, struct, pyppmd
order, mem = int(sys.argv[1]), int(sys.argv[2])
raw = sys.stdin.buffer.read()
pieces, pos = [], 0
while pos < len(raw):
    (n,) = struct.unpack_from("<I", raw, pos)
    pieces.append(raw[pos + 4:pos + 4 + n])
    pos += 4 + n
data = b"".join(pieces)

def decodes(stream):
    try:
        dec = pyppmd.Ppmd7Decoder(order, mem)
        res, p = bytearray(), 0
        while len(res) < len(data):
            if dec.needs_input:
                piece = stream[p:p + (1 << 20)] or b"\0"
                p += len(piece)
            else:
                piece = b""
            got = dec.decode(piece, len(data) - len(res))
            if not got and p > len(stream) + 64:
                return False
            res += got
        return bytes(res) == data
    except Exception:
        return False

e = pyppmd.Ppmd7Encoder(order, mem)
one = e.encode(data) + e.flush()
e = pyppmd.Ppmd7Encoder(order, mem)
pw = b"".join(e.encode(x) for x in pieces) + e.flush()
sys.stdout.write("kf04" if decodes(one) and not decodes(pw) else "no")
"""


def kf04() -> bool:
    """KF-04 (open, dependency): pyppmd's encoder, fed its input in several encode() calls, can emit a stream that does not decode
    although the same input encoded in one call does.  True iff that is what the library alone, in a process of its own, does
    with exactly the pieces py7zr fed one of this case's PPMd encoders."""
    import struct as _struct
    import subprocess

    for fd in list(PPMD_FEEDS):
        if fd["overflow"] or len(fd["pieces"]) < 2:
            continue
        try:
            blob = b"".join(_struct.pack("<I", len(x)) + x for x in fd["pieces"])
            r = subprocess.run([sys.executable, "-c", _KF04_PROBE, str(fd["order"]), str(fd["mem"])], input=blob, capture_output=True, timeout=300)
        except Exception:
            continue
        if r.returncode == 0 and r.stdout == b"kf04":
            return True
    return False


def absorb_destructor_error():
    """inflate64.Deflater, freed with pending data after a failed write, leaves an error set in its destructor; the next
    unrelated C call then raises SystemError('... returned a result with an exception set').  Trigger and swallow it here."""
    import gc

    for _ in range(4):
        try:
            gc.collect()
            int("0")
            bytes.fromhex("00")
            return
        except SystemError:
            continue
        except Exception:
            continue


def tag_kf47(out, pairs):
    """pairs: [(filters, [member bytes of that folder in order])].  Marks every violation of a case in which KF-47 applies."""
    absorb_destructor_error()
    if out is None or not getattr(out, "violations", None):
        del PPMD_FEEDS[:]
        return out
    try:
        hit04 = kf04()
    except Exception:
        hit04 = False
    del PPMD_FEEDS[:]
    if hit04:
        for v in out.violations:
            v["signature"]["kf04"] = True
    try:
        hit = any(kf47(f, d) for f, d in pairs)
    except Exception:
        hit = False
    if hit:
        for v in out.violations:
            v["signature"]["kf47"] = True
    try:
        hit49 = any(kf49(f, d) for f, d in pairs)
    except Exception:
        hit49 = False
    if hit49:
        for v in out.violations:
            v["signature"]["kf49"] = True
    try:
        hit72 = any(kf72(f, d) for f, d in pairs)
    except Exception:
        hit72 = False
    if hit72:
        for v in out.violations:
            v["signature"]["kf72"] = True
    return out


install_ppmd_recorder()
