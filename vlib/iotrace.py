"""Recording / fault-injecting file objects (C14, C15)."""
import io


class RecordingIO(io.BytesIO):
    """BytesIO that logs the ordered stream of write/seek/truncate operations issued on it (positions made explicit)."""

    def __init__(self, initial=b""):
        super().__init__(initial)
        self.log = []
        self.initial = bytes(initial)

    def write(self, b):
        b = bytes(b)
        if b:
            self.log.append(("write", self.tell(), b))
        return super().write(b)

    def truncate(self, size=None):
        if size is None:
            size = self.tell()
        self.log.append(("truncate", size, b""))
        return super().truncate(size)

    def images(self, every_prefix=True):
        """yield (op index, prefix length or None, label, image bytes) for every crash point"""
        cur = bytearray(self.initial)
        yield 0, None, "start", bytes(cur)
        for k, (op, pos, b) in enumerate(self.log):
            if op == "write":
                if every_prefix:
                    for p in range(1, len(b)):
                        img = bytearray(cur)
                        _apply_write(img, pos, b[:p])
                        yield k, p, "partial-write", bytes(img)
                _apply_write(cur, pos, b)
            else:
                del cur[pos:]
                if len(cur) < pos:
                    cur.extend(bytes(pos - len(cur)))
            yield k + 1, None, "after-" + op, bytes(cur)

    def variants(self):
        """last op dropped / last two reordered (lost or reordered final buffered block)"""
        n = len(self.log)
        if n >= 1:
            yield "drop-last", self._replay(self.log[:-1])
        if n >= 2:
            yield "drop-second-last", self._replay(self.log[:-2] + self.log[-1:])
            yield "swap-last-two", self._replay(self.log[:-2] + [self.log[-1], self.log[-2]])
        if n >= 3:
            yield "drop-third-last", self._replay(self.log[:-3] + self.log[-2:])

    def _replay(self, ops):
        cur = bytearray(self.initial)
        for op, pos, b in ops:
            if op == "write":
                _apply_write(cur, pos, b)
            else:
                del cur[pos:]
        return bytes(cur)


def _apply_write(buf, pos, b):
    if len(buf) < pos:
        buf.extend(bytes(pos - len(buf)))
    buf[pos:pos + len(b)] = b
