"""Shared runner: seeds, 16-way sharding, counters, failure bucketing, minimisation,
known-findings matching, replay files, evidence writer, exit codes.

A check module (checks/cNN_*.py) exposes a subclass instance `CHECK` of `Check`.
Cases are plain JSON-able values; `execute(case, env)` is the only place that touches
the code under test and returns an `Outcome`.
"""
from __future__ import annotations

import glob
import hashlib
import importlib
import json
import multiprocessing
import os
import resource
import shutil
import subprocess
import sys
import tempfile
import time
import traceback

VERIF = os.path.dirname(os.path.dirname(os.path.abspath(__file__)))
REPO = os.environ.get("VERIF_REPO", "/repo")
# evidence/ and replays/ live in the checkout; the seeded-change tools redirect them so that runs against a modified
# copy of the repository never overwrite the evidence of the real tree
OUT = os.environ.get("VERIF_OUT") or VERIF

CHECK_MODULES = {
    "C01": "checks.c01_roundtrip",
    "C02": "checks.c02_tree",
    "C03": "checks.c03_jail",
    "C04": "checks.c04_damage",
    "C05": "checks.c05_termination",
    "C06": "checks.c06_reader",
    "C07": "checks.c07_writer",
    "C08": "checks.c08_append",
    "C09": "checks.c09_selective",
    "C10": "checks.c10_listing",
    "C11": "checks.c11_encryption",
    "C12": "checks.c12_sessions",
    "C13": "checks.c13_schedule",
    "C14": "checks.c14_crash",
    "C15": "checks.c15_failed_write",
    "C16": "checks.c16_names",
    "C17": "checks.c17_values",
    "C18": "checks.c18_callbacks",
    "C19": "checks.c19_cli",
    "C20": "checks.c20_memory",
}


class HarnessError(Exception):
    pass


class _SkipMinimise(Exception):
    pass


def canon(obj) -> str:
    return json.dumps(obj, sort_keys=True, ensure_ascii=True, separators=(",", ":"), default=repr)


def short_hash(obj) -> str:
    return hashlib.sha1(canon(obj).encode()).hexdigest()[:16]


class Outcome:
    """Result of executing one case."""

    __slots__ = ("nontrivial", "descriptor", "classes", "violations", "inconclusive", "skipped", "sample", "extra")

    def __init__(self):
        self.nontrivial = False
        self.descriptor = None  # hashable/JSON-able summary used for distinct counting
        self.classes = []  # labels for the class histogram
        self.violations = []  # list of dict(signature=..., observed=..., expected=...)
        self.inconclusive = None  # reason string, if the case could not be decided
        self.skipped = None  # reason string: case rejected by construction (e.g. avoid set)
        self.sample = None  # optional compact rendering for evidence samples
        self.extra = {}  # numeric counters merged by summation

    def violate(self, signature: dict, observed=None, expected=None):
        self.violations.append({"signature": signature, "observed": observed, "expected": expected})

    def label(self, *names):
        self.classes.extend(names)

    def count(self, key, n=1):
        self.extra[key] = self.extra.get(key, 0) + n


class Env:
    def __init__(self, prop, tier, seed, shard, nshards, scratch, scale=1.0):
        self.prop = prop
        self.tier = tier
        self.seed = seed
        self.shard = shard
        self.nshards = nshards
        self.scratch = scratch
        self.scale = scale
        self.deadline = None
        self.t0 = None
        self.replaying = False
        self.state = {}

    @property
    def quick(self):
        return self.tier == "quick"

    def mine(self, index: int) -> bool:
        """Range partition helper for enumerations."""
        return index % self.nshards == self.shard

    def n(self, quick: int, thorough: int) -> int:
        v = quick if self.tier == "quick" else thorough
        return max(1, int(v * self.scale))

    def tmpdir(self, prefix="c") -> str:
        return tempfile.mkdtemp(prefix=prefix, dir=self.scratch)


class Check:
    property_id = "C00"
    level = "exploration"
    technique = "property-based testing"
    rule = ""
    assumptions: list = []
    budget_s = {"quick": 60, "thorough": 1200}
    shards = None  # override shard count (e.g. memory-heavy checks)
    rlimit_as = 3 << 30
    sandbox_timeout = None  # seconds; None = execute in the shard process itself
    minimise = True  # checks with very expensive cases switch the delta debugging of failures off

    def on_abnormal(self, case, res, env):
        """child hung (confirmed by a 3x re-run) or died: default = violation with the stack frame as signature"""
        out = Outcome()
        out.nontrivial = True
        if res[0] == "hang":
            out.violate({"kind": "hang", "frame": res[1]}, observed={"stack_tail": res[2][-1200:], "after_s": round(res[3], 1)},
                        expected="call returns or raises within the time bound")
        else:
            sig = {"kind": "interpreter-died", "exit": res[1]}
            try:
                # KF-60 (open, dependency): pyppmd's C decoder is not memory-safe on corrupt streams; a death while a PPMd-coded
                # archive is being processed is marked, every other death stays an unqualified violation
                text = json.dumps(case, default=repr).lower()
                if "ppmd" in text or '"id": 54' in text or "030401" in text:  # by name, py7zr filter id 0x36, or 7z method id
                    sig["ppmd_stream"] = True
            except Exception:
                pass
            out.violate(sig, observed={"dump": (res[2] or "")[-1200:]}, expected="interpreter survives")
        return out

    def setup(self, env):
        pass

    def teardown(self, env):
        pass

    def enumerated(self, env):
        return ()

    def strategy(self, env):
        return None

    def examples(self, env) -> int:
        return 0

    def execute(self, case, env) -> Outcome:
        raise NotImplementedError

    def stateful(self, env, handle):
        """Optional: run hypothesis state machines; call handle(case, outcome=None)."""
        return None

    def finalize(self, merged, env):
        """Optional cross-shard post-processing on the merged result (parent process)."""
        return None

    def exhaustive(self, env) -> bool:
        return False

    def coverage_extra(self, merged, env) -> dict:
        return {}


class ShardResult:
    def __init__(self):
        self.evaluations = 0
        self.nontrivial_hashes = set()
        self.classes = {}
        self.failures = {}  # sigkey -> dict(signature, case, observed, expected, count)
        self.samples = []
        self.class_samples = {}
        self.inconclusive = {}
        self.skipped = {}
        self.extra = {}
        self.budget_skipped = 0
        self.error = None
        self.wall = 0.0

    def record(self, case, out: Outcome):
        if out.skipped is not None:
            self.skipped[out.skipped] = self.skipped.get(out.skipped, 0) + 1
            return
        self.evaluations += 1
        desc = out.descriptor if out.descriptor is not None else case
        if out.inconclusive is not None:
            self.inconclusive[out.inconclusive] = self.inconclusive.get(out.inconclusive, 0) + 1
        if out.nontrivial:
            self.nontrivial_hashes.add(short_hash(desc))
        for c in out.classes:
            self.classes[c] = self.classes.get(c, 0) + 1
            if c not in self.class_samples and len(self.class_samples) < 40:
                self.class_samples[c] = out.sample if out.sample is not None else desc
        for k, v in out.extra.items():
            self.extra[k] = self.extra.get(k, 0) + v
        if len(self.samples) < 4 and out.nontrivial:
            self.samples.append(out.sample if out.sample is not None else desc)
        for v in out.violations:
            key = canon(v["signature"])
            f = self.failures.get(key)
            if f is None:
                self.failures[key] = dict(signature=v["signature"], case=case, observed=v["observed"],
                                          expected=v["expected"], count=1, size=len(canon(case)))
            else:
                f["count"] += 1
                sz = len(canon(case))
                if sz < f["size"]:  # keep the smallest witness seen
                    f.update(case=case, observed=v["observed"], expected=v["expected"], size=sz)


class Executor:
    """runs check.execute either in-process or in a watchdog child"""

    def __init__(self, check, env, confirm=True, timeout=None):
        self.check = check
        self.env = env
        self.sb = None
        self.sb3 = None
        self.hang_unconfirmed = 0
        self.confirm = confirm
        if check.sandbox_timeout:
            from vlib.sandbox import Sandbox

            self.Sandbox = Sandbox
            self.timeout = timeout or check.sandbox_timeout
            self.sb = Sandbox(check, env, self.timeout)

    def run(self, case) -> Outcome:
        if self.sb is None:
            return self.check.execute(case, self.env)
        res = self.sb.execute(case)
        if res[0] == "ok":
            return res[1]
        if res[0] == "exc":
            raise HarnessError("exception escaped execute() in sandbox child:\n" + res[2])
        if res[0] == "hang" and self.confirm:
            # confirmation re-run alone with 3x the limit
            if self.sb3 is None:
                self.sb3 = self.Sandbox(self.check, self.env, self.timeout * 3)
            res2 = self.sb3.execute(case)
            if res2[0] == "ok":
                self.hang_unconfirmed += 1
                res2[1].inconclusive = "watchdog-expiry-not-reproduced"
                return res2[1]
            if res2[0] == "exc":
                raise HarnessError("exception escaped execute() in sandbox child:\n" + res2[2])
            res = res2
        return self.check.on_abnormal(case, res, self.env)

    def close(self):
        for sb in (self.sb, self.sb3):
            if sb is not None:
                sb.close()


def _limit_memory(nbytes):
    try:
        resource.setrlimit(resource.RLIMIT_AS, (nbytes, nbytes))
    except Exception:
        pass


def over_budget(env) -> bool:
    """The budget is meant as work on an otherwise idle machine.  When other jobs compete for the cores (1-minute load average
    above the core count) the wall-clock allowance stretches with the load, up to 3x, so that a busy machine does not silently
    cut the enumerated slices; whatever is cut is still counted as budget_skipped."""
    now = time.time()
    if now <= env.deadline:
        return False
    try:
        load = os.getloadavg()[0] / (os.cpu_count() or 1)
    except OSError:
        load = 1.0
    t0 = getattr(env, "t0", None) or now
    return now > t0 + (env.deadline - t0) * min(3.0, max(1.0, load))


def _shard_entry(modname, env: Env, conn, budget):
    res = ShardResult()
    t0 = time.time()
    try:
        check = importlib.import_module(modname).CHECK
        if check.rlimit_as:
            _limit_memory(check.rlimit_as)
        os.makedirs(env.scratch, exist_ok=True)
        os.chdir(env.scratch)
        env.deadline = t0 + budget
        env.t0 = t0
        check.setup(env)
        ex = Executor(check, env)

        def handle(case, out=None):
            if over_budget(env):
                res.budget_skipped += 1
                return None
            if out is None:
                out = ex.run(case)
            res.record(case, out)
            return out

        try:
            if env.shard == 0:
                for rp in sorted(glob.glob(os.path.join(VERIF, "regress", env.prop, "*.json"))):
                    with open(rp) as fh:
                        handle(json.load(fh)["case"])
                    res.extra["replayed"] = res.extra.get("replayed", 0) + 1
            for case in check.enumerated(env):
                handle(case)
                if over_budget(env):
                    res.budget_skipped += 1
                    break
            strat = check.strategy(env)
            n = check.examples(env)
            if strat is not None and n > 0:
                import warnings

                import hypothesis
                from hypothesis import HealthCheck, Phase, given, settings
                from hypothesis.errors import HypothesisWarning

                # "Generating overly large repr": Hypothesis renders the strategy for an internal event when a unique list gives up
                warnings.filterwarnings("ignore", category=HypothesisWarning)

                @hypothesis.seed(env.seed * 1000 + env.shard)
                @settings(max_examples=n, database=None, deadline=None, phases=[Phase.generate],
                          suppress_health_check=list(HealthCheck), report_multiple_bugs=False,
                          derandomize=False)
                @given(strat)
                def prop(case):
                    handle(case)

                prop()
            check.stateful(env, handle)
        finally:
            ex.close()
            check.teardown(env)
    except BaseException:
        res.error = traceback.format_exc()
    res.wall = time.time() - t0
    try:
        conn.send(res)
    except Exception:
        res2 = ShardResult()
        res2.error = "could not pickle shard result: " + traceback.format_exc()
        conn.send(res2)
    conn.close()


# ----------------------------------------------------------------------------------
# known findings


def load_known():
    p = os.path.join(VERIF, "known_findings.json")
    if not os.path.exists(p):
        return []
    with open(p) as f:
        return json.load(f)


def match_known(prop, signature, known):
    for kf in known:
        if kf.get("status") != "open":
            continue
        if prop not in kf.get("properties", []):
            continue
        for sig in kf.get("signatures") or [kf.get("signature", {})]:  # "signatures": alternative faces of one root cause
            ok = True
            for k, v in sig.items():
                sv = signature.get(k)
                if isinstance(v, list):
                    if sv not in v:
                        ok = False
                        break
                elif sv != v:
                    ok = False
                    break
            if ok:
                return kf
    return None


# ----------------------------------------------------------------------------------
# generic JSON delta debugging (used when a check has no shrinker of its own)


def _paths(obj, prefix=()):
    yield prefix, obj
    if isinstance(obj, list):
        for i, v in enumerate(obj):
            yield from _paths(v, prefix + (i,))
    elif isinstance(obj, dict):
        for k, v in obj.items():
            yield from _paths(v, prefix + (k,))


def _get(obj, path):
    for p in path:
        obj = obj[p]
    return obj


def _replace(obj, path, value):
    if not path:
        return value
    c = json.loads(json.dumps(obj))
    o = c
    for p in path[:-1]:
        o = o[p]
    o[path[-1]] = value
    return c


def _candidates(v):
    if isinstance(v, list):
        n = len(v)
        if n:
            # halves first, then single deletions
            if n > 3:
                yield v[: n // 2]
                yield v[n // 2:]
            for i in range(n - 1, -1, -1):
                yield v[:i] + v[i + 1:]
    elif isinstance(v, bool):
        if v:
            yield False
    elif isinstance(v, int):
        if v != 0:
            yield 0
            if abs(v) > 1:
                yield v // 2
                yield v - 1 if v > 0 else v + 1
    elif isinstance(v, str):
        if len(v) > 1:
            yield v[: len(v) // 2]
            yield v[len(v) // 2:]
            yield v[:-1]


def minimise(case, still_fails, time_budget):
    """Greedy ddmin over a JSON value. still_fails(candidate)->bool must be exception-safe."""
    t_end = time.time() + time_budget
    best = json.loads(json.dumps(case))
    improved = True
    while improved and time.time() < t_end:
        improved = False
        for path, v in list(_paths(best)):
            if time.time() > t_end:
                break
            try:
                cur = _get(best, path)
            except (KeyError, IndexError, TypeError):
                continue
            for cand in _candidates(cur):
                if time.time() > t_end:
                    break
                trial = _replace(best, path, cand)
                if len(canon(trial)) >= len(canon(best)) and not isinstance(cand, (int, bool)):
                    continue
                if still_fails(trial):
                    best = trial
                    improved = True
                    break
            if improved:
                break
    return best


# ----------------------------------------------------------------------------------


def repo_state():
    try:
        head = subprocess.run(["git", "-C", REPO, "rev-parse", "HEAD"], capture_output=True, text=True, timeout=20).stdout.strip()
        dirty = subprocess.run(["git", "-C", REPO, "status", "--porcelain", "--untracked-files=no"], capture_output=True, text=True,
                               timeout=20).stdout.strip() != ""
        return head, dirty
    except Exception:
        return "unknown", None


def write_evidence(path, data):
    os.makedirs(os.path.dirname(path), exist_ok=True)
    tmp = path + ".tmp"
    with open(tmp, "w") as f:
        json.dump(data, f, indent=1, sort_keys=True, default=repr)
    os.replace(tmp, path)


def run_case_isolated(check, case, env):
    try:
        return check.execute(case, env)
    except BaseException:
        return None


def main(prop, tier, replay, nshards, scale):
    t0 = time.time()
    if prop not in CHECK_MODULES:
        print("HARNESS-ERROR: unknown property", prop)
        return 2
    seed = int(os.environ.get("VERIF_SEED", "1"))
    modname = CHECK_MODULES[prop]
    check = importlib.import_module(modname).CHECK
    if check.shards:
        nshards = min(nshards, check.shards)
    base = tempfile.mkdtemp(prefix="verif-%s-" % prop.lower(), dir=os.environ.get("TMPDIR", "/tmp"))
    known = load_known()
    try:
        if replay:
            return do_replay(check, prop, tier, seed, replay, base, known)
        budget = check.budget_s[tier] * max(1.0, scale)
        ctx = multiprocessing.get_context("fork")
        procs = []
        for k in range(nshards):
            env = Env(prop, tier, seed, k, nshards, os.path.join(base, "shard-%d" % k), scale)
            pc, cc = ctx.Pipe(duplex=False)
            p = ctx.Process(target=_shard_entry, args=(modname, env, cc, budget))
            p.start()
            cc.close()
            procs.append((p, pc))
        results = []
        hard_deadline = time.time() + budget * 3.0 + 600
        for p, pc in procs:
            remaining = max(1.0, hard_deadline - time.time())
            if pc.poll(remaining):
                try:
                    results.append(pc.recv())
                except EOFError:
                    r = ShardResult()
                    r.error = "shard died without a result (exit code %r)" % p.exitcode
                    results.append(r)
            else:
                r = ShardResult()
                r.error = "shard exceeded hard deadline"
                results.append(r)
                p.kill()
            p.join(30)
            if p.is_alive():
                p.kill()
        errors = [r.error for r in results if r.error]
        merged = ShardResult()
        for r in results:
            merged.evaluations += r.evaluations
            merged.nontrivial_hashes |= r.nontrivial_hashes
            merged.budget_skipped += r.budget_skipped
            for k, v in r.classes.items():
                merged.classes[k] = merged.classes.get(k, 0) + v
            for k, v in r.class_samples.items():
                merged.class_samples.setdefault(k, v)
            for k, v in r.inconclusive.items():
                merged.inconclusive[k] = merged.inconclusive.get(k, 0) + v
            for k, v in r.skipped.items():
                merged.skipped[k] = merged.skipped.get(k, 0) + v
            for k, v in r.extra.items():
                merged.extra[k] = merged.extra.get(k, 0) + v
            merged.samples.extend(r.samples[:2])
            for key, f in r.failures.items():
                g = merged.failures.get(key)
                if g is None:
                    merged.failures[key] = dict(f)
                else:
                    g["count"] += f["count"]
                    if f["size"] < g["size"]:
                        g.update(case=f["case"], observed=f["observed"], expected=f["expected"], size=f["size"])
        if errors:
            for e in errors[:3]:
                print(e)
            print("HARNESS-ERROR: %d shard(s) failed" % len(errors))
            return 2
        env0 = Env(prop, tier, seed, 0, 1, os.path.join(base, "parent"), scale)
        os.makedirs(env0.scratch, exist_ok=True)
        os.chdir(env0.scratch)
        check.setup(env0)
        try:
            check.finalize(merged, env0)
            rc, report = triage(check, prop, tier, seed, merged, known, env0)
        finally:
            check.teardown(env0)
        wall = time.time() - t0
        head, dirty = repo_state()
        samples = merged.samples[:8]
        for k in sorted(merged.class_samples)[:12]:
            samples.append({"class": k, "case": merged.class_samples[k]})
        if not samples:
            samples = ["(no non-trivial case was generated)"]
        cov = {
            "evaluations": merged.evaluations,
            "distinct_nontrivial": len(merged.nontrivial_hashes),
            "rule": check.rule,
            "samples": _trim(samples),
            "classes": dict(sorted(merged.classes.items())),
            "known_hits": report["known_hits"],
            "excluded_by_known_finding": dict(merged.skipped),
            "inconclusive": dict(merged.inconclusive),
            "budget_skipped": merged.budget_skipped,
            "counters": dict(sorted(merged.extra.items())),
            "shards": nshards,
            "shard_wall_s": [round(r.wall, 1) for r in results],
            "technique": check.technique,
        }
        if check.exhaustive(env0) and merged.budget_skipped == 0:
            cov["exhaustive"] = True
        cov.update(check.coverage_extra(merged, env0) or {})
        ev = {
            "property_id": prop,
            "tier": tier,
            "seed": seed,
            "level": check.level,
            "coverage": cov,
            "assumptions": list(check.assumptions),
            "wall_s": round(wall, 2),
            "violations": report["new"],
            "repo_head": head,
            "repo_dirty": dirty,
        }
        write_evidence(os.path.join(OUT, "evidence", prop + ".json"), ev)
        print("%s tier=%s seed=%d evaluations=%d distinct_nontrivial=%d known_hits=%d new=%d wall=%.1fs%s" % (
            prop, tier, seed, merged.evaluations, len(merged.nontrivial_hashes), sum(report["known_hits"].values()),
            report["new"], wall, (" budget_skipped=%d" % merged.budget_skipped) if merged.budget_skipped else ""))
        return rc
    finally:
        os.chdir(VERIF)
        shutil.rmtree(base, ignore_errors=True)


def _trim(obj, limit=1500):
    s = canon(obj)
    if len(s) <= limit * 12:
        return obj
    out = []
    for x in obj:
        c = canon(x)
        out.append(x if len(c) <= limit else c[:limit] + "...")
    return out


def triage(check, prop, tier, seed, merged, known, env):
    report = {"known_hits": {}, "new": 0}
    printed = set()
    rc = 0
    new = []
    for key, f in sorted(merged.failures.items()):
        kf = match_known(prop, f["signature"], known)
        if kf is not None:
            report["known_hits"][kf["id"]] = report["known_hits"].get(kf["id"], 0) + f["count"]
            if kf["id"] not in printed:
                printed.add(kf["id"])
                print("KNOWN-FINDING: property=%s %s: %s" % (prop, kf["id"], kf["what"]))
        else:
            new.append(f)
    min_budget = (20 if tier == "quick" else 120)
    ex = Executor(check, env, confirm=False, timeout=min(check.sandbox_timeout or 10, 10 if tier == "quick" else 30))
    for f in new[:6]:
        sigkey = canon(f["signature"])

        def still_fails(c):
            try:
                out = ex.run(c)
            except BaseException:
                return False
            return any(canon(v["signature"]) == sigkey for v in out.violations)

        case = f["case"]
        try:
            env.replaying = True
            if not check.minimise:
                reproduced = None
                raise _SkipMinimise()
            if still_fails(case):
                case = minimise(case, still_fails, min_budget / max(1, len(new[:6])))
                out = ex.run(case)
                for v in out.violations:
                    if canon(v["signature"]) == sigkey:
                        f["observed"], f["expected"] = v["observed"], v["expected"]
                reproduced = True
            else:
                reproduced = False
        except _SkipMinimise:
            pass
        finally:
            env.replaying = False
        rp = {"property": prop, "seed": seed, "tier": tier, "case": case, "signature": f["signature"],
              "observed": f["observed"], "expected": f["expected"], "count": f["count"], "reproduced_in_parent": reproduced}
        d = os.path.join(OUT, "replays", prop)
        os.makedirs(d, exist_ok=True)
        path = os.path.join(d, short_hash([f["signature"], case]) + ".json")
        with open(path, "w") as fh:
            json.dump(rp, fh, indent=1, sort_keys=True, default=repr)
        print("VIOLATION property=%s replay=%s" % (prop, path))
        print("  signature=%s count=%d" % (canon(f["signature"]), f["count"]))
        print("  observed=%s" % (canon(f["observed"])[:600]))
        print("  expected=%s" % (canon(f["expected"])[:600]))
        report["new"] += 1
        rc = 1
    ex.close()
    if len(new) > 6:
        for f in new[6:]:
            print("  further new signature (not minimised): %s count=%d" % (canon(f["signature"])[:300], f["count"]))
        report["new"] = len(new)
    return rc, report


def do_replay(check, prop, tier, seed, replay, base, known):
    with open(replay) as f:
        rp = json.load(f)
    env = Env(prop, tier, seed, 0, 1, os.path.join(base, "replay"), 1.0)
    os.makedirs(env.scratch, exist_ok=True)
    os.chdir(env.scratch)
    env.replaying = True
    env.deadline = time.time() + 3600
    check.setup(env)
    ex = Executor(check, env)
    try:
        out = ex.run(rp["case"])
    finally:
        ex.close()
        check.teardown(env)
    rc = 0
    for v in out.violations:
        kf = match_known(prop, v["signature"], known)
        if kf is not None:
            print("KNOWN-FINDING: property=%s %s: %s" % (prop, kf["id"], kf["what"]))
            continue
        print("VIOLATION property=%s replay=%s" % (prop, os.path.abspath(replay)))
        print("  signature=%s" % canon(v["signature"]))
        print("  observed=%s" % canon(v["observed"])[:1000])
        print("  expected=%s" % canon(v["expected"])[:1000])
        rc = 1
    if rc == 0:
        print("%s replay: no violation" % prop)
    return rc
