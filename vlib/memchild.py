"""Fresh-process worker for C20: performs one write / extract / testzip operation on a large
generated member and reports the peak resident set growth (VmHWM) over the baseline after imports.

usage: python memchild.py '<json spec>'   -> prints one JSON line
"""
import hashlib
import io
import json
import os
import random
import resource
import sys
import time
import zlib


def vm(field):
    with open("/proc/self/status") as f:
        for line in f:
            if line.startswith(field + ":"):
                return int(line.split()[1])
    return -1


class Source(io.BufferedIOBase):
    """deterministic stream of `size` bytes that never exists in memory as a whole"""

    def __init__(self, kind, size, seed=1):
        self.kind, self.size, self.pos = kind, size, 0
        self.seed = seed
        if kind == "zeros":
            self.block = bytes(1 << 20)
        elif kind == "period7":
            self.block = (b"abcdefg" * ((1 << 20) // 7 + 1))
        elif kind == "period64k":
            self.block = random.Random(seed).randbytes(65536) * 16
        else:
            self.block = None
        self.rng = random.Random(seed)

    def readable(self):
        return True

    def seekable(self):
        return True

    def tell(self):
        return self.pos

    def seek(self, off, whence=0):
        if whence == 0:
            new = off
        elif whence == 1:
            new = self.pos + off
        else:
            new = self.size + off
        if new != self.pos and self.kind == "random":
            if new == 0:
                self.rng = random.Random(self.seed)
            elif new != self.size:
                raise io.UnsupportedOperation("random source only rewinds")
        self.pos = new
        return self.pos

    def read(self, n=-1):
        if n is None or n < 0:
            n = self.size - self.pos
        n = max(0, min(n, self.size - self.pos))
        if n == 0:
            return b""
        if self.kind == "half":
            # 64 KiB of PRNG bytes alternating with 64 KiB of zeros: compresses to about one half, every run is different
            parts = []
            pos, left = self.pos, n
            while left > 0:
                blk, off = divmod(pos, 131072)
                unit = random.Random(self.seed * 1000003 + blk).randbytes(65536) + bytes(65536)
                take = min(left, 131072 - off)
                parts.append(unit[off:off + take])
                pos += take
                left -= take
            b = b"".join(parts)
        elif self.kind == "random":
            b = self.rng.randbytes(n)
        elif self.kind == "period7":
            off = self.pos % 7
            b = self.block[off:off + n]
            while len(b) < n:
                b += self.block[(self.pos + len(b)) % 7:][: n - len(b)]
        else:
            off = self.pos % len(self.block) if self.kind == "period64k" else 0
            b = self.block[off:off + n]
            while len(b) < n:
                b += self.block[: n - len(b)]
        self.pos += n
        return b


def digest_of(kind, size, seed):
    s = Source(kind, size, seed)
    c = 0
    n = 0
    while True:
        b = s.read(1 << 22)
        if not b:
            break
        c = zlib.crc32(b, c)
        n += len(b)
    return n, c & 0xFFFFFFFF


def main():
    spec = json.loads(sys.argv[1])
    sys.path.insert(0, spec.get("repo", "/repo"))
    import py7zr
    from py7zr.io import Py7zIO, WriterFactory

    cap = spec.get("rlimit_as")
    base_rss = vm("VmRSS")
    base_hwm = vm("VmHWM")
    if cap:
        resource.setrlimit(resource.RLIMIT_AS, (cap, cap))
    if spec.get("rlimit_data"):
        # a finite soft data-segment limit, as under `ulimit -d`: the library derives its chunk size from it
        hard = resource.getrlimit(resource.RLIMIT_DATA)[1]
        resource.setrlimit(resource.RLIMIT_DATA, (int(spec["rlimit_data"]), hard))
    t0 = time.time()
    res = {"op": spec["op"], "ok": True}
    try:
        op = spec["op"]
        filters = spec.get("filters")
        pw = spec.get("password")
        apath = spec["archive"]
        members = spec["members"]  # list of [name, kind, size, seed]
        if op in ("writef", "write"):
            if spec.get("append"):
                # the big member is added in a second session, to an archive that already exists
                with py7zr.SevenZipFile(apath, "w", filters=filters, password=pw) as z:
                    z.writestr(b"first session", "seed.txt")
            groups = [members]
            if spec.get("one_folder_each"):
                groups = [[m] for m in members]  # one session, hence one folder, per member
            for gi, group in enumerate(groups):
              with py7zr.SevenZipFile(apath, "a" if (spec.get("append") or gi > 0) else "w", filters=filters, password=pw) as z:
                for name, kind, size, seed in group:
                    if op == "writef" or size < (1 << 20):
                        z.writef(Source(kind, size, seed), name)
                    else:
                        p = spec["srcfile"]
                        with open(p, "wb") as f:
                            s = Source(kind, size, seed)
                            while True:
                                b = s.read(1 << 22)
                                if not b:
                                    break
                                f.write(b)
                        z.write(p, name)
                        os.unlink(p)
            res["archive_bytes"] = os.path.getsize(apath)
        else:
            class CrcIO(Py7zIO):
                def __init__(self):
                    self.n = 0
                    self.c = 0

                def write(self, s):
                    self.n += len(s)
                    self.c = zlib.crc32(s, self.c)
                    return len(s)

                def read(self, size=None):
                    return b""

                def seek(self, offset, whence=0):
                    return 0

                def flush(self):
                    pass

                def size(self):
                    return self.n

            class Fac(WriterFactory):
                def __init__(self):
                    self.p = {}

                def create(self, filename):
                    self.p[filename] = CrcIO()
                    return self.p[filename]

            with py7zr.SevenZipFile(apath, "r", password=pw) as z:
                if op == "extract-factory":
                    fac = Fac()
                    z.extractall(factory=fac)
                    res["delivered"] = {k: [v.n, v.c & 0xFFFFFFFF] for k, v in fac.p.items()}
                elif op == "extract-path":
                    z.extractall(spec["dest"])
                    d = {}
                    for name, kind, size, seed in members:
                        p = os.path.join(spec["dest"], name)
                        c = 0
                        n = 0
                        with open(p, "rb") as f:
                            while True:
                                b = f.read(1 << 22)
                                if not b:
                                    break
                                c = zlib.crc32(b, c)
                                n += len(b)
                        d[name] = [n, c & 0xFFFFFFFF]
                        os.unlink(p)
                    res["delivered"] = d
                elif op == "testzip":
                    res["testzip"] = z.testzip()
    except MemoryError:
        res["ok"] = False
        res["error"] = "MemoryError"
    except Exception as e:
        res["ok"] = False
        res["error"] = "%s: %s" % (type(e).__name__, str(e)[:200])
    res["wall_s"] = round(time.time() - t0, 1)
    res["peak_growth_kb"] = max(0, vm("VmHWM") - base_rss)
    res["base_rss_kb"] = base_rss
    print(json.dumps(res))


if __name__ == "__main__":
    main()
